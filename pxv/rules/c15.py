# -*- coding: utf-8 -*-
"""C15  \\input never reads outside the configured directory in strict mode.

R15a  the containment test between realpath(file) and realpath(dir) is
      component-aware (not a bare string prefix);
R15b  the value that is opened is the value that was checked: it is canonical
      (os.path.realpath) when checked, and not re-bound between check and open;
R15c  no directory set => no file access; strict flag forwarded unchanged;
R15d  who-may-open: file reads occur only in read_latex_file (and the CLIs).
"""
import ast
from .. import symex
from ..core import (AnalysisError, short, unparse, iter_own, call_name, call_recv,
                    is_self_attr, atomic_facts, always_exits, parents, enclosing_stmt,
                    enclosing_func, const_members, kwarg)

MOD = 'pylatexenc.latex2text._inputlatexfile'
L2T = 'pylatexenc.latex2text'
FN = 'read_latex_file'

OPENERS = {'open', 'read_text', 'read_bytes', 'fdopen', 'FileIO', 'urlopen', 'input'}


def _is_sep(e):
    t = unparse(e)
    return t in ('os.sep', 'os.path.sep', 'sep') or (isinstance(e, ast.Constant) and e.value == '/')


def _sep_terminated(e, sepnames):
    """Expression is known to end with a path separator (sepnames: names / expression texts
    known to end with one from the path facts)."""
    if unparse(e) in sepnames:
        return True
    if isinstance(e, ast.Name):
        return e.id in sepnames
    if isinstance(e, ast.BinOp) and isinstance(e.op, ast.Add):
        return _is_sep(e.right) or _sep_terminated(e.right, sepnames)
    if isinstance(e, ast.Call) and unparse(e.func) in ('os.path.join', 'join') and e.args:
        last = e.args[-1]
        return isinstance(last, ast.Constant) and last.value == ''
    return False


def _root_name(e):
    """Variable an expression such as b + os.sep / b.rstrip(os.sep) + os.sep /
    os.path.join(b, '') is derived from."""
    if isinstance(e, ast.Name):
        return e.id
    if isinstance(e, ast.BinOp):
        return _root_name(e.left)
    if isinstance(e, ast.Call):
        if isinstance(e.func, ast.Attribute) and e.func.attr in ('rstrip',):
            return _root_name(e.func.value)
        if e.args:
            return _root_name(e.args[0])
    return None


def _sep_names_before(fn, node):
    """Names made separator-terminated by the idiom
         if not N.endswith(os.sep): N = N + os.sep      (or N += os.sep)
       in a top-level statement of `fn` preceding `node`."""
    out = set()
    for st in fn.body:
        if st.lineno >= node.lineno:
            break
        if isinstance(st, ast.If) and not st.orelse and len(st.body) == 1:
            t = st.test
            if isinstance(t, ast.UnaryOp) and isinstance(t.op, ast.Not) and \
                    isinstance(t.operand, ast.Call) and call_name(t.operand) == 'endswith' and \
                    t.operand.args and _is_sep(t.operand.args[0]) and \
                    isinstance(call_recv(t.operand), ast.Name):
                n = call_recv(t.operand).id
                b = st.body[0]
                if isinstance(b, ast.Assign) and len(b.targets) == 1 and \
                        isinstance(b.targets[0], ast.Name) and b.targets[0].id == n and \
                        _sep_terminated(b.value, set()) and _root_name(b.value) == n:
                    out.add(n)
                elif isinstance(b, ast.AugAssign) and isinstance(b.target, ast.Name) and \
                        b.target.id == n and isinstance(b.op, ast.Add) and _is_sep(b.value):
                    out.add(n)
        elif isinstance(st, ast.Assign) and len(st.targets) == 1 and \
                isinstance(st.targets[0], ast.Name):
            n = st.targets[0].id
            if _sep_terminated(st.value, out):
                out.add(n)
            else:
                out.discard(n)
    return out


def contains_expr(e, a, b, sepnames, helpers, depth=0):
    """Classify boolean expression `e` as a containment test of path a in dir b.
    Returns ('ok'|'prefix'|'unknown', reason)."""
    if isinstance(e, ast.BoolOp) and isinstance(e.op, ast.Or):
        # every disjunct must itself imply containment
        res = [contains_expr(v, a, b, sepnames, helpers, depth) for v in e.values]
        if any(r[0] == 'prefix' for r in res):
            return [r for r in res if r[0] == 'prefix'][0]
        if all(r[0] == 'ok' for r in res):
            return 'ok', ' or '.join(r[1] for r in res)
        return 'unknown', 'disjunct not understood: ' + '; '.join(r[1] for r in res)
    if isinstance(e, ast.BoolOp) and isinstance(e.op, ast.And):
        res = [contains_expr(v, a, b, sepnames, helpers, depth) for v in e.values]
        if any(r[0] == 'ok' for r in res):
            return 'ok', 'conjunction containing: ' + [r for r in res if r[0] == 'ok'][0][1]
        if any(r[0] == 'prefix' for r in res):
            return [r for r in res if r[0] == 'prefix'][0]
        return 'unknown', 'conjunction not understood'
    if isinstance(e, ast.Compare) and len(e.ops) == 1:
        l, r = e.left, e.comparators[0]
        if isinstance(e.ops[0], ast.Eq):
            names = {unparse(l), unparse(r)}
            if names == {a, b}:
                return 'ok', '%s == %s' % (a, b)
            for x, y in ((l, r), (r, l)):
                if isinstance(x, ast.Call) and unparse(x.func).endswith('commonpath') and x.args \
                        and isinstance(x.args[0], (ast.List, ast.Tuple)) and \
                        {unparse(z) for z in x.args[0].elts} == {a, b} and unparse(y) == b:
                    return 'ok', 'commonpath([%s, %s]) == %s' % (a, b, b)
                if isinstance(x, ast.Call) and unparse(x.func).endswith('commonprefix') and x.args \
                        and unparse(y) == b:
                    return 'prefix', ('os.path.commonprefix compares characters, not path '
                                      'components: %s == %s is a plain string-prefix test, a sibling '
                                      'directory sharing the name prefix passes it' % (short(x), b))
                # a[:len(b)] == b
                if isinstance(x, ast.Subscript) and isinstance(x.slice, ast.Slice) and \
                        unparse(x.value) == a and unparse(y) == b:
                    return 'prefix', '%s == %s is a plain string-prefix test' % (short(x), b)
        if isinstance(e.ops[0], ast.In) and unparse(r).endswith('.parents'):
            return 'ok', 'pathlib parents test'
    if isinstance(e, ast.Call):
        cn = call_name(e)
        recv = call_recv(e)
        if cn == 'startswith' and recv is not None and unparse(recv) == a and e.args:
            arg = e.args[0]
            if _root_name(arg) == b and _sep_terminated(arg, sepnames):
                return 'ok', '%s.startswith(<%s terminated by os.sep>)' % (a, b)
            if _root_name(arg) == b:
                return 'prefix', ('%s.startswith(%s) is a plain string-prefix test: a sibling '
                                  'directory sharing the name prefix (…/base vs …/basement) '
                                  'passes it' % (a, short(arg)))
        if cn == 'is_relative_to':
            return 'ok', 'pathlib is_relative_to'
        if isinstance(e.func, ast.Name) and e.func.id in helpers and depth < 2:
            h = helpers[e.func.id]
            params = [x.arg for x in h.args.args]
            argn = [unparse(x) for x in e.args]
            if len(params) == len(argn) and a in argn and b in argn:
                pa, pb = params[argn.index(a)], params[argn.index(b)]
                return helper_contains(h, pa, pb, helpers, depth + 1)
    return 'unknown', 'containment test %s not in a recognised form' % short(e)


def helper_contains(h, pa, pb, helpers, depth):
    """Every truthy return of helper `h` must imply containment of pa in pb.  Decided on the
    substituted return value of each structural path (pxv.symex), with the branch decisions of
    the path as facts (`b.endswith(os.sep)` taken true makes b separator-terminated)."""
    try:
        cases = symex.return_cases(h)
    except symex.TooManyPaths as e:
        return 'unknown', str(e)
    if not cases:
        return 'unknown', 'helper has no return'
    reasons = []
    for cs in cases:
        v = cs.sub
        if isinstance(v, ast.Constant) and not v.value:
            continue
        folded = [c_ for e_ in [symex.expand(v, cs.env)] + [symex.expand(t_, cs.env) for t_, _ in cs.conds]
                  for c_ in ast.walk(e_)
                  if isinstance(c_, ast.Call) and call_name(c_) in ('lower', 'upper', 'casefold', 'normcase', 'swapcase')]
        if folded:
            return 'prefix', ('the containment test compares case-folded paths (%s): on a case-sensitive file '
                              'system a sibling directory that differs only in case (thesis / Thesis) counts '
                              'as inside' % short(folded[0], 40))
        sepfacts = set()
        pos_atoms = []
        for t, pol in cs.conds:
            for a, ap in symex._atoms(t, pol):
                if ap:
                    pos_atoms.append(a)
                    if isinstance(a, ast.Call) and call_name(a) == 'endswith' and a.args and \
                            _is_sep(a.args[0]) and call_recv(a) is not None:
                        sepfacts.add(unparse(call_recv(a)))
        if isinstance(v, ast.Constant) and v.value is True:
            ok = False
            for t in pos_atoms:
                c = contains_expr(t, pa, pb, sepfacts, helpers, depth)
                if c[0] == 'ok':
                    ok = True
                    reasons.append('return True under ' + c[1])
                elif c[0] == 'prefix':
                    return c
            if not ok:
                return 'unknown', 'helper returns True on a path whose guard is not a ' \
                                  'recognised containment test'
            continue
        c = contains_expr(v, pa, pb, sepfacts, helpers, depth)
        if c[0] != 'ok':
            return c
        if ('return ' + c[1]) not in reasons:
            reasons.append('return ' + c[1])
    if not reasons:
        return 'unknown', 'helper never returns a truthy value'
    return 'ok', h.name + ': ' + '; '.join(reasons)


class _NoEval(Exception):
    pass


PATH_PROBES = [
    ('/base/a.tex', '/base', True), ('/base/sub/a.tex', '/base', True), ('/base/..draft.tex', '/base', True),
    ('/base/..old/x.tex', '/base', True), ('/base/...latex', '/base', True), ('/base/sub/..x', '/base', True),
    ('/basement/x.tex', '/base', False), ('/x.tex', '/base', False), ('/other/base/x.tex', '/base', False),
    ('/a/b', '/a/b/c', False), ('/base2', '/base', False), ('/bas', '/base', False), ('/base/x', '/', True),
    ('/Base/x.tex', '/base', False), ('/base/sub/deep/x.tex', '/base/sub', True), ('/base/subdir/x', '/base/sub', False),
]


def path_probe_verdict(h, pa, pb):
    """evaluate the pure path predicate `h` (a module-level helper) with the checker's own
    interpreter on absolute, normalised probe paths (what realpath returns); posixpath functions
    stand for os.path.  ('ok'|'prefix'|'unknown', reason)"""
    import posixpath
    params = [a.arg for a in h.args.args]

    def run(path, d):
        env = dict(zip(params, [None] * len(params)))
        env[pa], env[pb] = path, d

        def ev(e):
            if isinstance(e, ast.Constant):
                return e.value
            if isinstance(e, ast.Name):
                if e.id in env:
                    return env[e.id]
                raise _NoEval('name ' + e.id)
            if isinstance(e, ast.Attribute):
                t = unparse(e)
                if t in ('os.sep', 'os.path.sep'):
                    return '/'
                if t in ('os.pardir', 'os.path.pardir'):
                    return '..'
                if t in ('os.curdir', 'os.path.curdir'):
                    return '.'
                raise _NoEval('attribute ' + t)
            if isinstance(e, ast.BoolOp):
                v = None
                for x in e.values:
                    v = ev(x)
                    if isinstance(e.op, ast.And) and not v:
                        return v
                    if isinstance(e.op, ast.Or) and v:
                        return v
                return v
            if isinstance(e, ast.UnaryOp) and isinstance(e.op, ast.Not):
                return not ev(e.operand)
            if isinstance(e, ast.BinOp) and isinstance(e.op, ast.Add):
                return ev(e.left) + ev(e.right)
            if isinstance(e, ast.IfExp):
                return ev(e.body) if ev(e.test) else ev(e.orelse)
            if isinstance(e, ast.Compare) and len(e.ops) == 1:
                l, r = ev(e.left), ev(e.comparators[0])
                op = e.ops[0]
                if isinstance(op, ast.Eq):
                    return l == r
                if isinstance(op, ast.NotEq):
                    return l != r
                if isinstance(op, ast.In):
                    return l in r
                if isinstance(op, ast.NotIn):
                    return l not in r
                raise _NoEval('operator')
            if isinstance(e, ast.Subscript):
                v = ev(e.value)
                if isinstance(e.slice, ast.Slice):
                    lo = ev(e.slice.lower) if e.slice.lower is not None else None
                    hi = ev(e.slice.upper) if e.slice.upper is not None else None
                    return v[lo:hi]
                return v[ev(e.slice)]
            if isinstance(e, (ast.List, ast.Tuple)):
                return [ev(x) for x in e.elts]
            if isinstance(e, ast.Call):
                fn = unparse(e.func)
                args = [ev(x) for x in e.args]
                if fn.startswith('os.path.') and hasattr(posixpath, fn[8:]) and fn[8:] in (
                        'relpath', 'isabs', 'join', 'normpath', 'commonpath', 'commonprefix', 'dirname', 'basename',
                        'split', 'splitext'):
                    return getattr(posixpath, fn[8:])(*args)
                if fn == 'len' and len(args) == 1:
                    return len(args[0])
                if isinstance(e.func, ast.Attribute):
                    recv = ev(e.func.value)
                    if isinstance(recv, str) and e.func.attr in ('startswith', 'endswith', 'rstrip', 'lstrip', 'strip',
                                                                  'split', 'lower', 'upper', 'casefold'):
                        return getattr(recv, e.func.attr)(*args)
                raise _NoEval('call ' + short(e, 40))
            raise _NoEval('expression ' + type(e).__name__)

        def block(stmts):
            for st in stmts:
                if isinstance(st, ast.Expr):
                    continue
                if isinstance(st, ast.Assign) and len(st.targets) == 1 and isinstance(st.targets[0], ast.Name):
                    env[st.targets[0].id] = ev(st.value)
                elif isinstance(st, ast.AugAssign) and isinstance(st.target, ast.Name) and isinstance(st.op, ast.Add):
                    env[st.target.id] = env[st.target.id] + ev(st.value)
                elif isinstance(st, ast.If):
                    r = block(st.body if ev(st.test) else st.orelse)
                    if r is not None:
                        return r
                elif isinstance(st, ast.Return):
                    return ('v', ev(st.value) if st.value is not None else None)
                else:
                    raise _NoEval('statement ' + type(st).__name__)
            return None
        r = block(h.body)
        if r is None:
            raise _NoEval('no return reached')
        return bool(r[1])
    wrong = []
    try:
        for path, d, want in PATH_PROBES:
            got = run(path, d)
            if got != want:
                wrong.append((path, d, got))
    except _NoEval as e:
        return 'unknown', 'containment helper not evaluable on probe paths (%s)' % e
    except Exception as e:      # posixpath raising on a probe (commonpath of mixed paths ...)
        return 'unknown', 'containment helper raised on a probe path (%s)' % type(e).__name__
    if not wrong:
        return 'ok', '%s: agrees with component-wise containment on %d probe path pairs' % (h.name, len(PATH_PROBES))
    leak = [w for w in wrong if w[2]]
    if leak:
        return 'prefix', ('%s accepts %s as inside %s: a path outside the directory passes the test'
                          % (h.name, leak[0][0], leak[0][1]))
    return 'prefix', ('%s rejects %s although it lies inside %s: %s, so a file inside the input directory is refused'
                      % (h.name, wrong[0][0], wrong[0][1],
                         'the directory prefix is built wrongly when the directory already ends with the separator (the root)'
                         if wrong[0][1].endswith('/') else
                         'the test looks at characters, not at path components (names that merely start with two dots are '
                         'taken for the parent directory)'))


def _is_realpath_call(e):
    return isinstance(e, ast.Call) and unparse(e.func) in ('os.path.realpath', 'realpath') and e.args


def run(ctx):
    repo = ctx.repo
    m = repo.mod(MOD)
    fn = m.func(FN)
    helpers = {q: f for q, f in m.functions.items() if '.' not in q and q != FN}
    params = [a.arg for a in fn.args.args]
    if len(params) < 3:
        raise AnalysisError('read_latex_file signature changed: %s' % params)
    p_dir, p_strict, p_fn = params[0], params[1], params[2]

    ctx.rule('R15a', 'the containment test between the canonical file path and the canonical '
                     'directory is component-aware (a == b, a.startswith(b + os.sep), commonpath, '
                     'pathlib), never a bare string prefix', 1)
    ctx.rule('R15b', 'the value opened is the value checked: it is os.path.realpath(...) when '
                     'tested, the directory side is realpath(<dir parameter>), the failing branch '
                     'returns without reading, and the variable is not re-bound between the test '
                     'and any open()/isfile()', 4)
    ctx.rule('R15c', 'no directory set means no file access; the strict flag is stored and '
                     'forwarded unchanged and defaults to True', 4)
    ctx.rule('R15e', 'file contents are not remembered under a key that omits the directory, the strict '
                     'flag or the name they were read with', 1)
    ctx.rule('R15d', 'who-may-open: calls that read files occur only in read_latex_file (and the '
                     'command-line __main__ modules)', 1)

    # ---- locate the strict block and the containment test
    strict_ifs = [s for s in fn.body if isinstance(s, ast.If) and p_strict in
                  {n.id for n in ast.walk(s.test) if isinstance(n, ast.Name)}]
    if not strict_ifs:
        ctx.refuted('R15b', m, fn, 'no `if %s:` block in read_latex_file: the containment check '
                                   'is gone' % p_strict, construct='strict block')
        strict_if = None
    else:
        strict_if = strict_ifs[0]
        pol_ok = isinstance(strict_if.test, ast.Name)
        ctx.decide('R15b', pol_ok, m, strict_if, 'check runs when the strict flag is truthy',
                   'strict block is guarded by %s, not by the strict flag being truthy'
                   % short(strict_if.test), construct='strict guard: ' + short(strict_if.test))

    opens = [c for c in iter_own(fn) if isinstance(c, ast.Call) and call_name(c) in OPENERS]
    if not opens:
        raise AnalysisError('read_latex_file no longer opens a file: anchor vanished')
    open_vars = set()
    for c in opens:
        a0 = c.args[0] if c.args else None
        if isinstance(a0, ast.Name):
            open_vars.add(a0.id)
        else:
            ctx.unknown('R15b', m, c, 'open() argument is not a plain variable')

    check = None
    if strict_if is not None:
        for s in ast.walk(strict_if):
            if isinstance(s, ast.If) and s is not strict_if and always_exits(s.body):
                check = s
                break
    if check is None and strict_if is not None:
        ctx.refuted('R15a', m, strict_if, 'strict block contains no test whose failing branch '
                                          'returns', construct='containment test')
    if check is not None:
        # failing branch: returns a constant without reading
        ret = check.body[-1]
        reads = [c for c in ast.walk(check) if isinstance(c, ast.Call) and call_name(c) in OPENERS]
        ok_ret = isinstance(ret, ast.Return) and (ret.value is None or
                                                  isinstance(ret.value, ast.Constant)) and not reads
        ctx.decide('R15b', ok_ret, m, ret, 'failing branch returns a constant without reading',
                   'failing branch of the containment test does not return a constant',
                   construct='failing branch: ' + short(ret))
        # polarity and shape
        test = check.test
        neg = isinstance(test, ast.UnaryOp) and isinstance(test.op, ast.Not)
        inner = test.operand if neg else test
        # identify a (file var) and b (dir var) from names used
        names = [n.id for n in ast.walk(inner) if isinstance(n, ast.Name)]
        cand_a = [n for n in names if n in open_vars]
        a = cand_a[0] if cand_a else None
        bs = [n for n in names if n != a and n not in helpers and n not in ('os',)]
        b = bs[0] if bs else None
        if a is None or b is None:
            ctx.refuted('R15b', m, check, 'the containment test does not mention the variable '
                                          'that is opened (%s)' % sorted(open_vars),
                        construct='tested variable: ' + short(test))
        else:
            sepn = _sep_names_before_in_block(strict_if, check)
            if not neg:
                ctx.refuted('R15a', m, check, 'the branch that returns early is taken when the '
                                              'containment test SUCCEEDS (polarity inverted)',
                            construct='containment: ' + short(test))
            else:
                verdict, why = contains_expr(inner, a, b, sepn, helpers)
                if verdict == 'unknown' and isinstance(inner, ast.Call) and isinstance(inner.func, ast.Name) \
                        and inner.func.id in helpers:
                    # a form the structural classifier does not know: the pure predicate is evaluated on probes
                    h_ = helpers[inner.func.id]
                    hp_ = [x.arg for x in h_.args.args]
                    an_ = [unparse(x) for x in inner.args]
                    if len(hp_) == len(an_) and a in an_ and b in an_:
                        verdict, why = path_probe_verdict(h_, hp_[an_.index(a)], hp_[an_.index(b)])
                elif verdict == 'ok' and isinstance(inner, ast.Call) and isinstance(inner.func, ast.Name) \
                        and inner.func.id in helpers:
                    # structurally fine: when the helper is evaluable, the probes (which include the root directory
                    # and sibling prefixes) must agree as well -- the structural classes do not see boundary cases
                    h_ = helpers[inner.func.id]
                    hp_ = [x.arg for x in h_.args.args]
                    an_ = [unparse(x) for x in inner.args]
                    if len(hp_) == len(an_) and a in an_ and b in an_:
                        v2, w2 = path_probe_verdict(h_, hp_[an_.index(a)], hp_[an_.index(b)])
                        if v2 == 'prefix':
                            verdict, why = v2, w2
                if verdict == 'ok':
                    ctx.holds('R15a', m, check, why, construct='containment: ' + short(test))
                elif verdict == 'prefix':
                    ctx.refuted('R15a', m, check, why, construct='containment: ' + short(test))
                else:
                    ctx.unknown('R15a', m, check, why, construct='containment: ' + short(test))
            # canonical when checked
            _check_canonical(ctx, m, fn, strict_if, check, a, b, p_dir)
            # not re-bound afterwards
            later = [s for s in iter_own(fn) if isinstance(s, (ast.Assign, ast.AugAssign))
                     and s.lineno > check.lineno and a in _targets(s)]
            if later:
                for s in later:
                    ctx.refuted('R15b', m, s, 'the checked path %s is re-bound after the '
                                              'containment test and before the file is opened: '
                                              'the name that is opened was never checked (a '
                                              'symlink with the implicit extension escapes)' % a,
                                construct='re-bound after check: ' + short(s))
            else:
                ctx.holds('R15b', m, check, '%s is not assigned between the test and open()' % a,
                          construct='no re-binding of %s after the check' % a)
            # every open()/isfile() after the check uses a
            for c in opens:
                a0 = c.args[0] if c.args else None
                okv = isinstance(a0, ast.Name) and a0.id == a and c.lineno > check.lineno
                ctx.decide('R15b', okv, m, c, 'opens the checked variable after the check',
                           'open() does not take the checked variable %s after the check' % a,
                           construct='open: ' + short(c))
            # the strict block dominates the open: it is a top-level statement preceding it
            top_open = [s for s in fn.body if any(c in list(ast.walk(s)) for c in opens)]
            dom = all(strict_if.lineno < s.lineno for s in top_open) and strict_if in fn.body
            ctx.decide('R15b', dom, m, strict_if, 'strict block is a top-level statement '
                                                  'preceding every open()',
                       'an open() is reachable without passing the strict block',
                       construct='strict block dominates open()')

    # ---- R15c
    l2t = repo.mod(L2T)
    meths = l2t.methods('LatexNodes2Text')
    rif = meths.get('read_input_file')
    if rif is None:
        raise AnalysisError('anchor vanished: LatexNodes2Text.read_input_file')
    calls = [c for c in iter_own(rif) if isinstance(c, ast.Call) and call_name(c) == FN]
    if not calls:
        raise AnalysisError('read_input_file no longer calls read_latex_file')
    for c in calls:
        facts = atomic_facts(c)
        guarded = any((not pol) and isinstance(t, ast.Compare) and
                      is_self_attr(t.left, 'tex_input_directory') and
                      isinstance(t.ops[0], ast.Is) and unparse(t.comparators[0]) == 'None'
                      for t, pol in facts) or any(
            pol and isinstance(t, ast.Compare) and is_self_attr(t.left, 'tex_input_directory')
            and isinstance(t.ops[0], ast.IsNot) for t, pol in facts) or any(
            (not pol) and isinstance(t, ast.UnaryOp) and isinstance(t.op, ast.Not)
            and is_self_attr(t.operand, 'tex_input_directory') for t, pol in facts)
        ctx.decide('R15c', guarded, m and l2t, c,
                   'file access only after `tex_input_directory is None` returned early',
                   'read_latex_file is reachable with no input directory configured',
                   construct='read_input_file: guard of ' + short(c))
        # argument mapping
        byname = {}
        for i, a_ in enumerate(c.args):
            if i < len(params):
                byname[params[i]] = a_
        for k in c.keywords:
            byname[k.arg] = k.value
        ok_s = p_strict in byname and is_self_attr(byname[p_strict], 'strict_input')
        ok_d = p_dir in byname and is_self_attr(byname[p_dir], 'tex_input_directory')
        ok_f = p_fn in byname and isinstance(byname[p_fn], ast.Name) and \
            byname[p_fn].id == rif.args.args[1].arg
        ctx.decide('R15c', ok_s and ok_d and ok_f, l2t, c,
                   'directory, strict flag and file name forwarded to the matching parameters',
                   'read_latex_file is not called with (self.tex_input_directory, '
                   'self.strict_input, <name>) bound to (%s, %s, %s)' % (p_dir, p_strict, p_fn),
                   construct='read_input_file: arguments of ' + short(c))
    # R15e: a file's contents are not remembered across a change of directory / strictness
    n_store = 0
    for c in calls:
        st = enclosing_stmt(c)
        stored = None
        if isinstance(st, ast.Assign):
            for t in st.targets:
                if isinstance(t, ast.Subscript):
                    stored = (t, st)
                elif isinstance(t, ast.Name):
                    # local that is later stored into a container
                    for s2 in iter_own(rif):
                        if isinstance(s2, ast.Assign) and isinstance(s2.value, ast.Name) and \
                                s2.value.id == t.id and isinstance(s2.targets[0], ast.Subscript):
                            stored = (s2.targets[0], s2)
        if stored is None:
            continue
        n_store += 1
        tgt, sst = stored
        keytexts = set()
        stack = [tgt.slice]
        seen_names = set()
        while stack:
            e = stack.pop()
            for x in ast.walk(e):
                if isinstance(x, ast.Attribute) and is_self_attr(x):
                    keytexts.add(unparse(x))
                if isinstance(x, ast.Name) and x.id not in seen_names:
                    seen_names.add(x.id)
                    keytexts.add(x.id)
                    for s3 in iter_own(rif):
                        if isinstance(s3, ast.Assign) and any(isinstance(t3, ast.Name) and t3.id == x.id
                                                              for t3 in s3.targets):
                            stack.append(s3.value)
        need = [unparse(a_) for a_ in list(c.args) + [k.value for k in c.keywords]]
        missing = [a_ for a_ in need if a_ not in keytexts]
        ctx.decide('R15e', not missing, l2t, sst,
                   'cached file contents are keyed by every argument of the read (%s)' % need,
                   'the contents returned by read_latex_file(%s) are remembered in %s under a key that '
                   'does not include %s: after set_tex_input_directory() selects another directory (or '
                   'strictness) the text of a file outside the new directory is still returned'
                   % (', '.join(need), short(tgt.value), missing),
                   construct='read_input_file: cache key of ' + short(tgt, 50))
    ctx.holds('R15e', l2t, rif, 'read_input_file stores the result of %d of its %d read(s) in a container'
              % (n_store, len(calls)), construct='read_input_file: result caching scan', trivial=True)
    # strict flag storage
    init = meths.get('__init__')
    setd = meths.get('set_tex_input_directory')
    if init is None or setd is None:
        raise AnalysisError('anchor vanished: LatexNodes2Text.__init__/set_tex_input_directory')
    for s in iter_own(init):
        if isinstance(s, ast.Assign) and is_self_attr(s.targets[0], 'strict_input'):
            ok = isinstance(s.value, ast.Constant) and s.value.value is True
            ctx.decide('R15c', ok, l2t, s, 'strict_input defaults to True',
                       'strict_input does not default to True', construct='__init__: ' + short(s))
    for s in iter_own(setd):
        if isinstance(s, ast.Assign) and is_self_attr(s.targets[0], 'strict_input'):
            ok = isinstance(s.value, ast.Name) and s.value.id == 'strict_input'
            ctx.decide('R15c', ok, l2t, s, 'strict flag stored unchanged',
                       'set_tex_input_directory does not store its strict_input argument '
                       'unchanged', construct='set_tex_input_directory: ' + short(s))
    dflt = None
    names = [a.arg for a in setd.args.args]
    if 'strict_input' in names:
        i = names.index('strict_input') - (len(names) - len(setd.args.defaults))
        if i >= 0:
            dflt = setd.args.defaults[i]
    ctx.decide('R15c', isinstance(dflt, ast.Constant) and dflt.value is True, l2t, setd,
               'set_tex_input_directory(strict_input=True) by default',
               'strict_input parameter of set_tex_input_directory does not default to True',
               construct='set_tex_input_directory: default of strict_input')

    # ---- R15k: the published positional order of set_tex_input_directory
    # (pylatexenc 2.x and 3.x: set_tex_input_directory(tex_input_directory, latex_walker_init_args=None, strict_input=True);
    #  a caller written against that order passes the walker arguments second -- if `strict_input` moves there, a dict or
    #  None given for the walker arguments silently becomes the strict flag, and None / {} switch containment off)
    ctx.rule('R15k', 'set_tex_input_directory keeps its published positional order (tex_input_directory, '
                     'latex_walker_init_args, strict_input): strict_input is not the second positional parameter, where '
                     'existing callers pass the walker arguments (a falsy one would switch strict mode off)', 1)
    pos_ = [a.arg for a in setd.args.args][1:]
    ctx.decide('R15k', pos_[:3] == ['tex_input_directory', 'latex_walker_init_args', 'strict_input'], l2t, setd,
               'positional order %s' % pos_,
               'set_tex_input_directory takes its parameters in the order %s, not (tex_input_directory, latex_walker_init_args, '
               'strict_input) as published: a caller that passes the walker arguments positionally -- '
               'set_tex_input_directory(d, {}) or (d, None) -- now sets strict_input to a falsy value, and \\input{../x} is '
               'read from outside the directory' % pos_, construct='set_tex_input_directory: positional order')

    # ---- R15d
    n_sites = 0
    for mod in repo.modules.values():
        if mod.name.endswith('__main__'):
            continue
        for c in ast.walk(mod.tree):
            if isinstance(c, ast.Call) and call_name(c) in ('open', 'read_text', 'read_bytes',
                                                            'fdopen', 'urlopen'):
                if call_name(c) == 'open' and isinstance(c.func, ast.Attribute) and \
                        unparse(c.func.value) not in ('io', 'codecs', 'os'):
                    continue
                n_sites += 1
                f = enclosing_func(c)
                inside = mod.name == MOD and f is not None and getattr(f, 'name', '') == FN
                ctx.decide('R15d', inside, mod, c, 'file read inside read_latex_file',
                           'file content is read outside read_latex_file: it bypasses the '
                           'strict-input containment check', construct='file read: ' + short(c))
    ctx.analysed['file_read_sites'] = n_sites
    ctx.assume('os.path.realpath resolves every symbolic link and ".." component; no race with '
               'the file system between the check and open()')
    # ---- R15f: realpath sees the name as it was requested
    ctx.rule('R15f', 'os.path.realpath() is applied to the joined name itself: no lexical normalisation (normpath, '
                     'abspath) runs first -- `link/..` must be resolved through the link, as the file system does', 1)
    n_rp = 0
    for c_ in [x for x in ast.walk(fn) if isinstance(x, ast.Call) and unparse(x.func) in ('os.path.realpath', 'realpath')]:
        n_rp += 1
        # follow one level of local definitions of the argument
        exprs_ = list(c_.args)
        for a_ in c_.args:
            if isinstance(a_, ast.Name):
                exprs_ += [st_.value for st_ in iter_own(fn) if isinstance(st_, ast.Assign) and any(
                    isinstance(t_, ast.Name) and t_.id == a_.id for t_ in st_.targets) and st_.lineno < c_.lineno]
        lexical = [x for e_ in exprs_ for x in ast.walk(e_) if isinstance(x, ast.Call) and
                   unparse(x.func).rsplit('.', 1)[-1] in ('normpath', 'abspath', 'normcase')]
        ctx.decide('R15f', not lexical, m, c_, 'realpath applied to ' + short(c_.args[0], 50) if c_.args else 'realpath()',
                   'the name is normalised lexically (%s) before os.path.realpath(): `..` after a directory symlink is '
                   'removed together with the link name instead of being resolved through the link, so the path that is '
                   'checked and opened is not the file the requested name designates'
                   % (short(lexical[0], 50) if lexical else ''), construct='realpath argument: ' + short(c_, 60))
    if n_rp == 0:
        ctx.unknown('R15f', m, fn, 'no realpath call found', construct='realpath argument')

    # ---- R15g: the directory that is tested is the configured one
    ctx.rule('R15g', 'the attributes tex_input_directory and strict_input are written by set_tex_input_directory() (and '
                     '__init__) only: no temporary override moves the directory the containment test is made against, or '
                     'switches the test off for nested includes', 2)
    l2m_ = repo.mod('pylatexenc.latex2text')
    for q_, f_ in sorted(l2m_.functions.items()):
        for x_ in iter_own(f_):
            hit = None
            which = None
            for fld_ in ('tex_input_directory', 'strict_input'):
                if isinstance(x_, ast.Attribute) and isinstance(x_.ctx, ast.Store) and x_.attr == fld_:
                    hit, which = x_, fld_
                if isinstance(x_, ast.Call) and any(isinstance(a_, ast.Constant) and a_.value == fld_ for a_ in x_.args):
                    hit, which = x_, fld_
            if hit is None:
                continue
            okw = q_.endswith('.set_tex_input_directory') or q_.endswith('.__init__')
            if which == 'tex_input_directory':
                ctx.decide('R15g', okw, l2m_, enclosing_stmt(hit) or hit, '%s sets tex_input_directory' % q_,
                           '%s overrides tex_input_directory (%s): files requested while the override is active are resolved and '
                           'tested against another directory than the configured one (a symlinked sub-directory moves the base '
                           'outside), so an outside file is read in strict mode' % (q_, short(hit, 60)),
                           construct='%s: write of tex_input_directory' % q_)
            else:
                ctx.decide('R15g', okw, l2m_, enclosing_stmt(hit) or hit, '%s sets strict_input' % q_,
                           '%s overrides strict_input (%s): while the override is active -- during the conversion of an included '
                           'file -- \\input requests are served without the containment test, so an inside file that itself '
                           'inputs ../x or an absolute name pulls in content from outside the directory'
                           % (q_, short(hit, 60)), construct='%s: write of strict_input' % q_)
    # ---- R15h: paired push/pop of converter state
    ctx.rule('R15h', 'converter state pushed for the duration of an \\input (self.X.append(..) ... self.X.pop()) is popped in '
                     'a finally clause: an exception raised in between must not leave the file marked as being read', 0)
    n_pp = 0
    for q_, f_ in sorted(l2m_.functions.items()):
        pushes = [c_ for c_ in iter_own(f_) if isinstance(c_, ast.Call) and call_name(c_) == 'append' and
                  call_recv(c_) is not None and is_self_attr(call_recv(c_))]
        for pu in pushes:
            attr = call_recv(pu).attr
            pops = [c_ for c_ in iter_own(f_) if isinstance(c_, ast.Call) and call_name(c_) in ('pop', 'remove') and
                    call_recv(c_) is not None and is_self_attr(call_recv(c_), attr)]
            if not pops:
                continue
            n_pp += 1
            infinal = all(any(isinstance(p_, ast.Try) and any(c_ is y_ for s_ in p_.finalbody for y_ in ast.walk(s_))
                              for p_ in parents(c_)) for c_ in pops)
            ctx.decide('R15h', infinal, l2m_, pops[0], '%s: self.%s popped in a finally clause' % (q_, attr),
                       '%s pushes onto self.%s and pops it again outside any finally clause: when the conversion in between '
                       'raises (a parse error in an included file) the entry stays, and from then on that file is taken for '
                       'a recursive \\input and comes back empty although it lies inside the directory' % (q_, attr),
                       construct='%s: push/pop of self.%s' % (q_, attr))
    ctx.holds('R15h', l2m_, None, '%d push/pop pair(s) on converter state' % n_pp, construct='push/pop scan', trivial=True)

    # ---- R15l: nothing but the real-path test refuses a name
    ctx.rule('R15l', 'read_input_file hands every request on to read_latex_file, except when no input directory is set: no '
                     'refusal by the spelling of the name (absolute, containing dots, ...) in front of the real-path test -- a '
                     'name that resolves inside the directory is read however it is written', 1)
    rif = l2t.methods('LatexNodes2Text').get('read_input_file')
    if rif is None:
        raise AnalysisError('anchor vanished: LatexNodes2Text.read_input_file')
    try:
        rcs_ = [c_ for c_ in symex.Walker(want_returns=True).run(rif) if c_.kind == 'return']
    except symex.TooManyPaths:
        rcs_ = []
    badr, n_fw = None, 0
    for cs in rcs_:
        v_ = symex.expand(cs.sub, cs.env)
        if isinstance(v_, ast.Call) and call_name(v_) == FN:
            n_fw += 1
            continue
        atoms = {(unparse(a_), ap_) for t_, p_ in cs.conds for a_, ap_ in symex._atoms(t_, p_)}
        nodir = any((ap_ and t_ in ('self.tex_input_directory is None', 'not self.tex_input_directory')) or
                    ((not ap_) and t_ in ('self.tex_input_directory is not None', 'self.tex_input_directory'))
                    for t_, ap_ in atoms)
        if not nodir and badr is None:
            badr = cs
    ctx.decide('R15l', badr is None and n_fw > 0, l2t, badr.node if badr else rif,
               'every request with a directory set reaches read_latex_file (%d forwarding path(s))' % n_fw,
               'read_input_file returns %s on the path [%s] without asking read_latex_file: the request is refused by how the name '
               'is written, so an absolute name (or a symlinked spelling) that resolves INSIDE the input directory is not read'
               % (short(badr.sub, 30) if badr else '', ' & '.join(badr.cond_src())[-140:] if badr else ''),
               construct='read_input_file: refusals')

    # ---- R15m: the only directory ever searched is the configured one
    ctx.rule('R15m', 'every call of read_latex_file -- from the converter and from read_latex_file itself -- passes the configured '
                     'input directory (self.tex_input_directory / the function\'s own directory parameter) as the directory, and '
                     'the module does not consult the process environment: a second search location (TEXINPUTS, the working '
                     'directory) is checked against ITSELF in strict mode, so a file outside the configured directory is read', 1)
    n_rc = 0
    for mm_ in sorted(repo.modules.values(), key=lambda z_: z_.relpath):
        for q_, f_ in sorted(mm_.functions.items()):
            for c_ in iter_own(f_):
                if not (isinstance(c_, ast.Call) and call_name(c_) == FN):
                    continue
                n_rc += 1
                d_ = c_.args[0] if c_.args else kwarg(c_, p_dir)
                if isinstance(d_, ast.Name):
                    # a local bound once to the configured directory
                    bs_ = [a_ for a_ in iter_own(f_) if isinstance(a_, ast.Assign) and any(
                        isinstance(t_, ast.Name) and t_.id == d_.id for tt_ in a_.targets for t_ in ast.walk(tt_))]
                    if len(bs_) == 1 and len(bs_[0].targets) == 1 and isinstance(bs_[0].targets[0], ast.Name) and \
                            unparse(bs_[0].value) == 'self.tex_input_directory':
                        d_ = bs_[0].value
                okd = d_ is not None and (unparse(d_) == 'self.tex_input_directory' or
                                          (mm_ is m and f_ is fn and isinstance(d_, ast.Name) and d_.id == p_dir and
                                           not any(isinstance(t_, ast.Name) and t_.id == p_dir and isinstance(t_.ctx, ast.Store)
                                                   for t_ in ast.walk(fn))))
                ctx.decide('R15m', okd, mm_, c_, '%s passes the configured directory' % q_,
                           '%s calls read_latex_file with the directory %s, which is not the configured input directory: the '
                           'containment test is then made against that directory, and strict mode returns a file that lies '
                           'outside the directory the user configured' % (q_, short(d_, 40) if d_ is not None else '<none>'),
                           construct='%s: %s' % (q_, short(c_, 50)))
    if not n_rc:
        ctx.unknown('R15m', m, None, 'no call of read_latex_file found', construct='read_latex_file calls')
    envr = [x_ for x_ in ast.walk(m.tree) if isinstance(x_, ast.Attribute) and x_.attr in ('environ', 'getenv', 'getcwd')
            and unparse(x_.value) == 'os']
    ctx.decide('R15m', not envr, m, envr[0] if envr else None, 'no use of the process environment in the module',
               'the file-reading module consults %s: a search location other than the configured directory'
               % (unparse(envr[0]) if envr else ''), construct='environment reads')

    # ---- R15j: per path, the value opened in strict mode passed the containment test
    ctx.rule('R15j', 'on every path of read_latex_file that reaches open() with the strict flag true, a test on the very value '
                     'that is opened (other than a file-existence test) was passed: no path around the refusal -- a refusal '
                     'that happens only the first time, only when logging, only for some spellings -- reaches the read', 1)
    try:
        ocs = symex.Walker(is_sink=lambda c_: call_name(c_) in OPENERS).run(fn)
    except symex.TooManyPaths as e:
        ocs = None
        ctx.unknown('R15j', m, fn, str(e), construct='read_latex_file: paths to open()')
    if ocs is not None:
        badp, n_strict = None, 0
        for cs in ocs:
            atoms = [(a_, ap_) for t_, p_ in cs.conds for a_, ap_ in symex._atoms(t_, p_)]
            if not any(unparse(a_) == p_strict and ap_ for a_, ap_ in atoms):
                continue
            n_strict += 1
            opened = unparse(cs.sub.args[0]) if cs.sub.args else None
            passed = [a_ for a_, ap_ in atoms if ap_ and opened is not None and opened in unparse(a_) and not (
                isinstance(a_, ast.Call) and unparse(a_.func) in ('os.path.exists', 'os.path.isfile', 'os.path.lexists',
                                                                  'os.path.isdir', 'os.access'))]
            if not passed and badp is None:
                badp = cs
        ctx.decide('R15j', badp is None and n_strict > 0, m, badp.node if badp else fn,
                   '%d path(s) to open() in strict mode, each through a passed test on the opened value' % n_strict,
                   'read_latex_file reaches %s in strict mode on the path [%s], on which no containment test on that value was '
                   'passed: the refusal can be walked around (a second request for the same outside name is served)'
                   % (short(badp.sub, 40) if badp else 'open()', ' & '.join(badp.cond_src())[-200:] if badp else ''),
                   construct='read_latex_file: paths to open()')

    # ---- R15i: names inside are read, with or without the implicit extension
    ctx.rule('R15i', 'the implicit extensions .tex and .latex are both tried, and on every path to such a completion the only '
                     'tests are file-existence tests: whether a name is completed does not depend on how it is spelled (a '
                     'dot in the name, an upper-case letter), so a name that resolves to a file inside the directory is read', 2)
    # completions `X = X + <ext>`: the extension a literal, or the variable of a loop over a constant sequence; in
    # read_latex_file itself or in a module-level helper
    comp = []       # (function, assignment, extensions, loop variable or None)
    for g_ in [fn] + [h_ for h_ in helpers.values()]:
        for a_ in iter_own(g_):
            if not (isinstance(a_, ast.Assign) and isinstance(a_.value, ast.BinOp) and isinstance(a_.value.op, ast.Add)):
                continue
            r_ = a_.value.right
            if isinstance(r_, ast.Constant) and isinstance(r_.value, str) and r_.value.startswith('.'):
                comp.append((g_, a_, [r_.value], None))
            elif isinstance(r_, ast.Name):
                lps_ = [l_ for l_ in parents(a_) if isinstance(l_, ast.For) and isinstance(l_.target, ast.Name)
                        and l_.target.id == r_.id]
                mem_ = const_members(m, lps_[0].iter) if lps_ else None
                if mem_ and all(isinstance(x_, str) and x_.startswith('.') for x_ in mem_):
                    comp.append((g_, a_, list(mem_), r_.id))
    exts = sorted({e_ for c_ in comp for e_ in c_[2]})
    ctx.decide('R15i', '.tex' in exts and '.latex' in exts, m, comp[0][1] if comp else fn,
               'completions tried: %s' % exts, 'read_latex_file completes a name with %s only: the implicit extensions .tex '
               'and .latex are not both tried, a file inside the directory requested without its extension is not read' % exts,
               construct='read_latex_file: implicit extensions')
    seen_c = set()
    for g_ in {id(c_[0]): c_[0] for c_ in comp}.values():
        lvars = {c_[3] for c_ in comp if c_[0] is g_ and c_[3]}
        try:
            ccs = symex.Walker(is_sink=lambda n_: isinstance(n_.op, ast.Add) and (
                (isinstance(n_.right, ast.Constant) and n_.right.value in exts) or
                (isinstance(n_.right, ast.Name) and n_.right.id in lvars)) and isinstance(
                    getattr(n_, '_parent', None), (ast.Assign, type(None))), sink_types=(ast.BinOp,)).run(g_)
        except symex.TooManyPaths:
            ccs = []
            ctx.unknown('R15i', m, g_, 'too many paths', construct='read_latex_file: completion paths')
        for cs in ccs:
            other = []
            for t_, p_ in cs.conds:
                for a_, ap_ in symex._atoms(t_, p_):
                    for leaf in _bool_leaves(a_):
                        if isinstance(leaf, ast.Call) and unparse(leaf.func) in ('os.path.exists', 'os.path.isfile',
                                                                                'os.path.lexists', 'exists', 'isfile'):
                            continue
                        other.append(('' if ap_ or leaf is not a_ else 'not ') + short(leaf, 60))
            key_ = (unparse(cs.node), tuple(other))
            if key_ in seen_c:
                continue
            seen_c.add(key_)
            ctx.decide('R15i', not other, m, cs.node, 'completion under existence tests only',
                       'the completion `%s` is tried only when %s: a requested name for which this is false (`notes.v2` for the '
                       'file notes.v2.tex) is never completed, so a file that lies inside the input directory is not read'
                       % (short(cs.node, 50), ' and '.join(other)), construct='read_latex_file: ' + short(cs.node, 50))

    return 'other', (
        'Decides, on the source of read_latex_file / read_input_file, the necessary structural '
        'conditions of strict-input containment: component-aware test, canonical value checked, '
        'checked value opened, early return, strict flag plumbing, and that no other function of '
        'the package reads files.  With realpath semantics these conditions are also sufficient '
        'for the stated property on a quiescent file system; the run-time behaviour of '
        'os.path functions is trusted, not analysed.')


def _targets(s):
    out = set()
    tg = s.targets if isinstance(s, ast.Assign) else [s.target]
    for t in tg:
        for n in ast.walk(t):
            if isinstance(n, ast.Name):
                out.add(n.id)
    return out


def _sep_names_before_in_block(block, node):
    fake = ast.FunctionDef(name='_', args=None, body=block.body, decorator_list=[])
    return _sep_names_before(fake, node)


def _check_canonical(ctx, m, fn, strict_if, check, a, b, p_dir):
    """The last definitions of a and b before the check are realpath(...) calls and lie in
    the strict block itself (so they dominate the check on the strict path) or at
    function top level with nothing re-binding them in between."""
    for var, what in ((a, 'file'), (b, 'directory')):
        defs = [s for s in iter_own(fn) if isinstance(s, (ast.Assign, ast.AugAssign))
                and var in _targets(s) and s.lineno < check.lineno]
        if not defs:
            ctx.unknown('R15b', m, check, 'no definition of %s before the check' % var,
                        construct='canonical %s path' % what)
            continue
        last = max(defs, key=lambda s: s.lineno)
        uncond = (last in strict_if.body) or (last in fn.body)
        canon = isinstance(last, ast.Assign) and _is_realpath_call(last.value)
        if what == 'directory' and canon:
            canon = p_dir in {n.id for n in ast.walk(last.value) if isinstance(n, ast.Name)}
        ctx.decide('R15b', canon and uncond, m, last,
                   '%s path is os.path.realpath(...) when tested' % what,
                   'the %s path that is tested (%s) is not the result of os.path.realpath at the '
                   'point of the test (last definition: %s%s): a symbolic link or an extension '
                   'added after canonicalisation escapes the check'
                   % (what, var, short(last), '' if uncond else ', conditional'),
                   construct='canonical %s path: %s' % (what, short(last)))


def _bool_leaves(e):
    if isinstance(e, ast.BoolOp):
        for v in e.values:
            for x in _bool_leaves(v):
                yield x
    elif isinstance(e, ast.UnaryOp) and isinstance(e.op, ast.Not):
        for x in _bool_leaves(e.operand):
            yield x
    else:
        yield e
