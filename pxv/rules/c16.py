# -*- coding: utf-8 -*-
"""C16  The pylatexenc-2 compatible API gives the same results as the new parsers.

R16a each legacy walker method builds the parser class its deprecation message
names and runs it through parse_content with a reader positioned at `pos`;
R16b parameter liveness; R16b2 every stop_upon_* option that can stop the
collection also makes the stop required; R16c result triple; R16d guard/use
agreement in CallableSpec.__init__; R16e legacy attribute names written = read;
R16f std_macro/std_environment argument-string construction; R16g the legacy
args parser advances only to positions reported by its sub-parses."""
import ast
import re
from ..core import (AnalysisError, short, unparse, iter_own, call_name, call_recv, kwarg,
                    is_self_attr, atomic_facts, split_conj, parents, enclosing_stmt, enclosing_func)

WALKER = 'pylatexenc.latexwalker._walker'
SPEC = 'pylatexenc.macrospec._specclasses'
ARGP = 'pylatexenc.macrospec._argumentsparser'
from .. import symex

HELP = 'pylatexenc.macrospec._spechelpers'
BASE = 'pylatexenc.macrospec._pyltxenc2_argparsers._base'

SHIMS = ('get_token', 'get_latex_nodes', 'get_latex_expression', 'get_latex_braced_group',
         'get_latex_environment', 'get_latex_maybe_optional_arg')
# constant options of the parser each shim builds, confirmed by reading against the pylatexenc-2 behaviour
SHIM_FIXED_OPTIONS = {
    'get_latex_nodes': {},
    # 2.x returned one node, and skipped white space and comments in front of the expression
    'get_latex_expression': {'return_full_node_list': False, 'allow_pre_space': True, 'allow_pre_comments': True},
    # 2.x read the opening brace with get_token(), which skips white space
    'get_latex_braced_group': {'allow_pre_space': True},
    'get_latex_environment': {},
    # documented equivalent: LatexOptionalSquareBracketsParser() as constructed by default
    'get_latex_maybe_optional_arg': {},
}
DEAD_OK = {'keep_inline_math': 'documented no-op since pylatexenc 2'}


def run(ctx):
    repo = ctx.repo
    w = repo.mod(WALKER)
    ctx.rule('R16a', 'each legacy LatexWalker method constructs the parser its deprecation message '
                     'names, calls parse_content with it and with a token reader positioned at its '
                     '`pos` argument, and is installed on LatexWalker under its documented name', 6)
    ctx.rule('R16b', 'every parameter of a legacy method is live: it reaches the parser '
                     'constructor, the parsing state, the token reader or the result', 15)
    ctx.rule('R16b2', 'get_latex_nodes: every stop_upon_* option that stops the collection also '
                      'requires the stop to be met (and only those)', 1)
    ctx.rule('R16c', 'the result triple is (node, node.pos, node.len) of the parsed object, or the '
                     'documented empty result when nothing was parsed', 5)
    ctx.rule('R16d', 'CallableSpec.__init__: the argument list handed to LatexArgumentsParser is the '
                     'value tested by the enclosing `if`', 1)
    ctx.rule('R16e', 'every _legacy_pyltxenc2_* attribute read by a spec callback is written by the '
                     'legacy wrapper under the same name, and vice versa', 2)
    ctx.rule('R16f', 'std_macro builds the argument string as optional `[` followed by numargs `{`; '
                     'std_environment forwards to it with make_environment_spec', 2)
    ctx.rule('R16l', 'legacy methods leave their argument objects unchanged (a list passed as include_brace_chars '
                     'is copied before it is extended)', 1)
    ctx.rule('R16k', 'legacy argspec "[": leading whitespace before the optional argument is accepted unless '
                     'optional_arg_no_space is set, like the argument-string spelling', 1)
    ctx.rule('R16j', 'a spec given a legacy args parser object keeps its body delta (is_math_mode) unless the '
                     'legacy parser requested an inner state: same body mode as the string / std_environment '
                     'spellings', 1)
    ctx.rule('R16m', 'the default legacy call (tri-state options such as strict_braces left at None, '
                     'tolerant_parsing off) returns the documented empty result on every path that swallowed '
                     'the parser\'s error: it fails exactly when the parser fails', 1)
    ctx.rule('R16i', 'legacy methods never test a numeric option (read_max_nodes, ...) by truthiness: 0 is a '
                     'value distinct from the None default', 1)
    ctx.rule('R16h', 'get_latex_nodes(stop_upon_closing_brace=...): the closing delimiter registered in '
                     'the parsing state is the value the stop condition compares the token with, for the '
                     'one-character and the (open, close) form alike', 2)
    ctx.rule('R16g', 'the legacy args parser advances its position only to positions reported by '
                     'the sub-parse (np + nl, tok.pos + len), never by arithmetic on the query '
                     'position (leading whitespace would be miscounted)', 4)

    # installed names
    installed = {}
    for st in w.tree.body:
        if isinstance(st, ast.Assign) and len(st.targets) == 1 and \
                isinstance(st.targets[0], ast.Attribute) and unparse(st.targets[0].value) == 'LatexWalker' \
                and isinstance(st.value, ast.Name):
            installed[st.targets[0].attr] = st.value.id

    _W_FUNCS.clear()
    _W_FUNCS.update((q, fn_) for q, fn_ in w.functions.items() if '.' not in q)
    msg_rx = re.compile(r'parse_content\((\w+)\(')
    for name in SHIMS:
        fname = '_pyltxenc2_LatexWalker_' + name
        f = w.functions.get(fname)
        if f is None:
            raise AnalysisError('anchor vanished: ' + fname)
        ok_inst = installed.get(name) == fname
        # deprecation message
        dep = [c for c in iter_own(f) if isinstance(c, ast.Call) and call_name(c) == 'pylatexenc_deprecated_3']
        msg = ''
        if dep and dep[0].args:
            msg = ''.join(x.value for x in ast.walk(dep[0].args[0]) if isinstance(x, ast.Constant)
                          and isinstance(x.value, str))
        ctor = [c for c in iter_own(f) if isinstance(c, ast.Call) and isinstance(c.func, ast.Attribute)
                and unparse(c.func.value) == 'parsers']
        pc = [c for c in iter_own(f) if isinstance(c, ast.Call) and call_name(c) == 'parse_content']
        if name == 'get_token':
            ok = 'LatexTokenReader' in msg and any(
                isinstance(c, ast.Call) and call_name(c) == 'peek_token' for c in iter_own(f))
            named = 'LatexTokenReader'
            built = 'make_token_reader(...).peek_token'
        else:
            mm = msg_rx.search(msg)
            named = mm.group(1) if mm else None
            built = ctor[0].func.attr if ctor else None
            ok = named is not None and built == named and len(pc) == 1 and pc[0].args and \
                unparse(pc[0].args[0]) == _var_of(f, ctor[0]) if ctor else False
        ctx.decide('R16a', bool(ok and ok_inst), w, f,
                   '%s builds %s as its message says and is installed as LatexWalker.%s'
                   % (name, named, name),
                   'legacy %s: deprecation message names %s, method builds %s, installed=%s'
                   % (name, named, built, ok_inst), construct=name + ': parser class')
        # reader positioned at pos
        posparam = 'pos'
        mk = [c for c in iter_own(f) if isinstance(c, ast.Call) and call_name(c) == 'make_token_reader']
        okp = bool(mk) and all(kwarg(c, 'pos') is not None and unparse(kwarg(c, 'pos')) == posparam
                               for c in mk)
        ctx.decide('R16a', okp, w, mk[0] if mk else f, 'token reader starts at the `pos` argument',
                   'legacy %s does not start its token reader at the `pos` argument' % name,
                   construct=name + ': reader position')
        # parsing_state forwarded
        if pc:
            ps = kwarg(pc[0], 'parsing_state')
            okps = ps is not None and unparse(ps) == 'parsing_state'
            tr = kwarg(pc[0], 'token_reader')
            ctx.decide('R16a', okps and tr is not None, w, pc[0],
                       'parse_content(parser, token_reader=..., parsing_state=parsing_state)',
                       'legacy %s does not forward its parsing state / token reader to parse_content'
                       % name, construct=name + ': parse_content call')

        # ---- R16b liveness
        params = [a.arg for a in f.args.args[1:]]
        used = {}
        for n in ast.walk(f):
            if isinstance(n, ast.Name) and isinstance(n.ctx, ast.Load) and n.id in params:
                used.setdefault(n.id, []).append(n)
        kw = f.args.kwarg.arg if f.args.kwarg else None
        for p in params:
            uses = used.get(p, [])
            # uses that are only the None-default normalisation `if p is None: p = ...` do count
            live = bool(uses)
            if p in DEAD_OK:
                ctx.holds('R16b', w, f, 'accepted dead parameter: ' + DEAD_OK[p],
                          construct='%s(%s)' % (name, p), trivial=True)
                continue
            ctx.decide('R16b', live, w, f, 'parameter %s is used' % p,
                       'parameter %s of legacy %s is ignored: calls that set it behave like calls '
                       'that do not' % (p, name), construct='%s(%s)' % (name, p))

        # ---- R16c result triple
        if name == 'get_token':
            continue
        rets = [r for r in iter_own(f) if isinstance(r, ast.Return) and r.value is not None]
        for r in rets:
            v = r.value
            if isinstance(v, ast.Constant) and v.value is None:
                facts = atomic_facts(r)
                ok = any(pol and unparse(t).endswith(' is None') for t, pol in facts)
                ctx.decide('R16c', ok, w, r, 'documented None result when nothing was parsed',
                           'returns None although a node may have been parsed',
                           construct=name + ': ' + short(r))
                continue
            if not (isinstance(v, ast.Tuple) and len(v.elts) == 3):
                ctx.unknown('R16c', w, r, 'result is not a 3-tuple', construct=name + ': ' + short(r))
                continue
            nv, pv, lv = [unparse(e) for e in v.elts]
            okc, why = _triple_ok(f, r, nv, pv, lv, name)
            ctx.decide('R16c', okc, w, r, why, 'legacy %s returns (%s, %s, %s): %s'
                       % (name, nv, pv, lv, why), construct=name + ': result triple')

    # ---- R16b2
    f = w.functions['_pyltxenc2_LatexWalker_get_latex_nodes']
    stc = [n for n in ast.walk(f) if isinstance(n, ast.FunctionDef) and n.name == 'stop_token_condition']
    p_stop = set()
    if stc:
        for i in ast.walk(stc[0]):
            if isinstance(i, ast.If):
                t = unparse(i.test)
                m_ = re.match(r'(stop_upon_\w+) is not None$', t)
                if m_:
                    p_stop.add(m_.group(1))
    # the stop options are independent of each other: a token that satisfies one of them stops
    # the collection whatever the other options are (no `elif` chain between them)
    if stc:
        for i in ast.walk(stc[0]):
            if isinstance(i, ast.If) and re.match(r'(stop_upon_\w+) is not None$', unparse(i.test)):
                par = getattr(i, '_parent', None)
                chained = isinstance(par, ast.If) and any(i is x for x in par.orelse) and \
                    re.match(r'(stop_upon_\w+) is not None$', unparse(par.test))
                ctx.decide('R16b2', not chained, w, i, '%s is tested independently' % unparse(i.test),
                           'the test `%s` is only reached when `%s` is false: with two stop options given, a '
                           'token that satisfies the later one does not stop the collection, while the '
                           'equivalent LatexGeneralNodesParser (any of the conditions) stops'
                           % (unparse(i.test), unparse(par.test) if chained else ''),
                           construct='get_latex_nodes: independent stop option ' + unparse(i.test))
    p_req = _required_when(f, 'require_stop_condition_met')
    ctx.decide('R16b2', p_req is not None and p_stop == p_req and bool(p_stop), w, f,
               'stop required exactly for %s' % sorted(p_stop),
               'options that can stop the collection: %s; options that make the stop required: %s. '
               'With the others, reaching the end of input without the closing token is silently '
               'accepted where the new parser raises'
               % (sorted(p_stop), sorted(p_req) if p_req is not None else 'not determinable'),
               construct='get_latex_nodes: require_stop_condition_met')
    gp = [c for c in iter_own(f) if isinstance(c, ast.Call) and call_name(c) == 'LatexGeneralNodesParser']
    if gp:
        fw = all(kwarg(gp[0], k) is not None and unparse(kwarg(gp[0], k)) == k for k in (
            'stop_token_condition', 'stop_nodelist_condition', 'require_stop_condition_met',
            'handle_stop_condition_token', 'stop_condition_message'))
        ctx.decide('R16a', fw, w, gp[0], 'all stop options forwarded under their own names',
                   'get_latex_nodes does not forward all of its stop options to '
                   'LatexGeneralNodesParser under their own names', construct='get_latex_nodes: forwarding')

    # ---- R16l: legacy methods do not modify the objects they are given (lists of delimiters ...)
    MUT_ = ('append', 'extend', 'insert', 'pop', 'remove', 'clear', 'sort', 'reverse', 'update')
    n_mut = 0
    for shim, fnode in sorted(w.functions.items()):
        if not shim.startswith('_pyltxenc2_LatexWalker_') or '.' in shim:
            continue
        fparams = {a.arg for a in fnode.args.args[1:]} | {a.arg for a in fnode.args.kwonlyargs}
        if not fparams:
            continue
        # in-place changes: P.append(..) / P += [...] where the name still denotes the caller's object
        try:
            wk = symex.Walker(is_sink=lambda c: call_name(c) in MUT_ and isinstance(call_recv(c), ast.Name)
                              and call_recv(c).id in fparams, pure=('list', 'dict', 'tuple', 'set'))
            cases = wk.run(fnode)
        except symex.TooManyPaths:
            cases = []
        for cs in cases:
            rv = call_recv(cs.sub)
            if isinstance(rv, ast.Name) and rv.id in fparams:
                n_mut += 1
                ctx.refuted('R16l', w, cs.node, '%s changes its argument %s in place (%s) on the path [%s]: the '
                            'caller\'s list is modified, so a later call with the same object behaves '
                            'differently from the equivalent new-style call'
                            % (shim.replace('_pyltxenc2_LatexWalker_', ''), rv.id, short(cs.node, 40),
                               ' & '.join(cs.cond_src())[-80:]), construct='%s: in-place %s' % (shim, short(cs.node, 40)))
        for st_ in iter_own(fnode):
            if isinstance(st_, ast.AugAssign) and isinstance(st_.target, ast.Name) and st_.target.id in fparams \
                    and isinstance(st_.op, ast.Add):
                # `P += [...]` extends P in place unless P was re-bound to a fresh copy on every path before
                try:
                    cs2 = symex.Walker(is_sink=lambda n: n is st_.value, sink_types=(type(st_.value),),
                                       pure=('list', 'dict', 'tuple', 'set')).run(fnode)
                except symex.TooManyPaths:
                    cs2 = []
                for cs in cs2:
                    cur = cs.env.get(st_.target.id)
                    fresh = cur is not None and not (isinstance(cur, ast.Name) and cur.id == st_.target.id)
                    if not fresh:
                        n_mut += 1
                        ctx.refuted('R16l', w, st_, '%s extends its argument %s in place (`%s`) on the path [%s] '
                                    'without first re-binding it to a copy: the caller\'s list grows, so a later '
                                    'call with the same list also treats these delimiters as braces'
                                    % (shim.replace('_pyltxenc2_LatexWalker_', ''), st_.target.id, short(st_, 50),
                                       ' & '.join(cs.cond_src())[-80:]),
                                    construct='%s: in-place %s' % (shim, short(st_, 40)))
                        break
    ctx.holds('R16l', w, None, 'no legacy method modifies an argument object in place', construct='argument mutation scan',
              trivial=True)

    # ---- R16k: the legacy '[' argument may be preceded by whitespace unless optional_arg_no_space
    bm_ = repo.mod(BASE)
    pa_ = bm_.methods('MacroStandardArgsParser').get('parse_args')
    dm_ = repo.mod('pylatexenc.latexnodes.parsers._delimited')
    di_ = dm_.methods('LatexDelimitedExpressionParser').get('__init__')
    dflt = None
    if di_ is not None:
        pos_ = di_.args.args
        for a_, d_ in zip(pos_[len(pos_) - len(di_.args.defaults):], di_.args.defaults):
            if a_.arg == 'allow_pre_space' and isinstance(d_, ast.Constant):
                dflt = d_.value
    br = [i for i in iter_own(pa_) if isinstance(i, ast.If) and "== '['" in unparse(i.test)] if pa_ else []
    if not br or dflt is None:
        ctx.unknown('R16k', bm_, pa_, 'optional-argument branch / parser default not found', construct='legacy optional argument')
    else:
        def _ctor_allows(scope):
            for c_ in ast.walk(scope):
                if isinstance(c_, ast.Call) and call_name(c_).endswith('Parser') and 'Optional' in call_name(c_):
                    v_ = kwarg(c_, 'allow_pre_space')
                    return (v_.value if isinstance(v_, ast.Constant) else None) if v_ is not None else dflt, c_
            return None, None
        allows, site = _ctor_allows(ast.Module(body=br[0].body, type_ignores=[]))
        if site is None:
            for c_ in ast.walk(ast.Module(body=br[0].body, type_ignores=[])):
                if isinstance(c_, ast.Call) and call_name(c_).startswith('get_latex_'):
                    h_ = w.functions.get('_pyltxenc2_LatexWalker_' + call_name(c_))
                    if h_ is not None:
                        allows, site = _ctor_allows(h_)
        if site is None:
            ctx.unknown('R16k', bm_, br[0], 'reader of the optional argument not recognised', construct='legacy optional argument')
        else:
            ctx.decide('R16k', allows is True, bm_, br[0],
                       'the optional argument is read with allow_pre_space=True',
                       'the optional argument of a legacy argspec is read by %s, which does not allow leading '
                       'whitespace (allow_pre_space=%r), although optional_arg_no_space=False means whitespace '
                       'is allowed and the same signature given as a string allows it: \\cmd{a} [b] gives '
                       '[{a}, None] through MacroStandardArgsParser("{[") but [{a}, [b]] through "{["'
                       % (short(site, 60), allows), construct='legacy optional argument')

    # ---- R16j: the legacy wrapper's body-delta override keeps the spec's own body delta
    spm = repo.mod(SPEC)
    mb_ = [f_ for q_, f_ in spm.functions.items() if q_.endswith('._make_body_parsing_state_delta')]
    if not mb_:
        ctx.unknown('R16j', spm, None, 'legacy body-delta override not found', construct='legacy body delta')
    else:
        why = None
        n_fb = 0
        for cs in symex.return_cases(mb_[0]):
            v = symex.resolve(cs.sub, cs.env)
            facts = symex.facts_of(cs.conds, cs.env)
            if isinstance(v, ast.Call) and call_name(v) == 'ParsingStateDeltaReplaceParsingState':
                x = kwarg(v, 'set_parsing_state') or (v.args[0] if v.args else None)
                xr = symex.resolve(x, cs.env) if x is not None else None
                maybe_none = isinstance(xr, ast.Call) and call_name(xr) == 'getattr' and len(xr.args) == 3 \
                    and isinstance(xr.args[2], ast.Constant) and xr.args[2].value is None
                known = any(t_ == '%s is None' % unparse(xr) and not p_ for t_, p_ in facts) if xr is not None else False
                if maybe_none and not known:
                    why = ('the override returns ReplaceParsingState(%s), which is a no-op when the legacy parser '
                           'requested no inner state, instead of the spec\'s own body delta: '
                           'EnvironmentSpec(args_parser=MacroStandardArgsParser(..), is_math_mode=True) parses its '
                           'body in text mode, unlike the string / std_environment spellings' % short(x))
            elif unparse(v).endswith('.body_parsing_state_delta'):
                n_fb += 1
        if why is None and not n_fb:
            why = 'no path falls back to the spec\'s own body_parsing_state_delta'
        ctx.decide('R16j', why is None, spm, mb_[0],
                   'without a requested inner state the spec\'s own body delta applies',
                   'legacy args parser wrapper: %s' % why, construct='legacy body delta override')

    # ---- R16i: a numeric option is never tested by truthiness (0 is a value, None means "unset")
    from . import gcommon
    n_num = 0
    for shim, fnode in sorted(w.functions.items()):
        if not shim.startswith('_pyltxenc2_LatexWalker_') or '.' in shim:
            continue
        scope = [fnode] + [x for x in ast.walk(fnode) if isinstance(x, ast.FunctionDef) and x is not fnode]
        numeric = set()
        for g_ in scope:
            for c_ in iter_own(g_):
                if isinstance(c_, ast.Compare) and len(c_.ops) == 1 and isinstance(
                        c_.ops[0], (ast.Lt, ast.LtE, ast.Gt, ast.GtE)):
                    for side, other in ((c_.left, c_.comparators[0]), (c_.comparators[0], c_.left)):
                        if isinstance(side, ast.Name) and (
                                (isinstance(other, ast.Call) and call_name(other) == 'len') or
                                (isinstance(other, ast.Constant) and isinstance(other.value, int))):
                            numeric.add(side.id)
        for g_ in scope:
            for t_, where in gcommon.truthiness_tests(g_):
                x = t_.operand if isinstance(t_, ast.UnaryOp) and isinstance(t_.op, ast.Not) else t_
                if isinstance(x, ast.Name) and x.id in numeric:
                    n_num += 1
                    ctx.refuted('R16i', w, where, 'the numeric option %s (compared with a length elsewhere in '
                                '%s) is tested by truthiness: the value 0 is treated like "not given", so '
                                '%s=0 reads the whole input where the equivalent new-style stop condition '
                                'stops at once' % (x.id, shim.replace('_pyltxenc2_LatexWalker_', ''), x.id),
                                construct='%s: truthiness of %s' % (shim, x.id))
    ctx.holds('R16i', w, None, 'no numeric option of a legacy method is tested by truthiness',
              construct='numeric option scan', trivial=True)

    # ---- R16m: the default call (tri-state options left at None, strict parsing) reports the
    # parser's failure: on every path through an except handler that swallows the parse error
    # the returned node is None (the documented empty result), not a made-up node
    n_m = 0
    for shim, fnode in sorted(w.functions.items()):
        if not shim.startswith('_pyltxenc2_LatexWalker_') or '.' in shim:
            continue
        hb = [h for t_ in iter_own(fnode) if isinstance(t_, ast.Try) for h in t_.handlers
              if h.type is not None and 'ParseError' in unparse(h.type)]
        hstmts = set()
        for h in hb:
            for s_ in h.body:
                for x in ast.walk(s_):
                    if isinstance(x, ast.Assign):
                        hstmts.add(x)
        if not hstmts:
            continue
        a_ = fnode.args
        defaults = dict(zip([p.arg for p in a_.args][len(a_.args) - len(a_.defaults):], a_.defaults))
        tri = sorted(p for p, d in defaults.items() if isinstance(d, ast.Constant) and d.value is None
                     and p != 'parsing_state')
        if not tri:
            continue
        env0 = dict((p, ast.Constant(value=None)) for p in tri)
        try:
            cases = symex.Walker(want_returns=True, trace=True, stmt_sink=lambda s_: s_ in hstmts).run(fnode, env0)
        except symex.TooManyPaths:
            ctx.unknown('R16m', w, fnode, 'too many paths', construct=shim + ': default call')
            continue
        assume = {'self.tolerant_parsing': False}
        bad = None
        nfail = 0
        for cs in cases:
            if cs.kind != 'return' or not any(t_[0] in hstmts for t_ in cs.env.get('#trace', ())):
                continue
            if any(_eval3(t_, assume) is (not pol) for t_, pol in cs.conds):
                continue
            nfail += 1
            v = cs.sub
            first = v.elts[0] if isinstance(v, ast.Tuple) and v.elts else v
            if not (isinstance(first, ast.Constant) and first.value is None):
                bad = (cs, first)
                break
        n_m += 1
        ctx.decide('R16m', bad is None and nfail > 0, w, (bad[0].node if bad else fnode),
                   '%s(%s): with the option(s) left at None and tolerant_parsing off, every path on which the '
                   'parse error was swallowed (%d) returns a None node' % (shim, ', '.join(tri), nfail),
                   ('%s: with %s left at its default None and tolerant_parsing off, the path [%s] swallows the '
                    'parse error and still returns the node `%s`: the legacy call succeeds where the parser '
                    'failed' % (shim, ', '.join(tri), bad[0].cond_src()[:160], short(bad[1])))
                   if bad else 'no failing path found for the default call',
                   construct=shim + ': default call on parser failure')
    if n_m == 0:
        ctx.unknown('R16m', w, None, 'no legacy method with a swallowing handler and a tri-state option found',
                    construct='default call on parser failure')

    # ---- R16h: the closing delimiter compared by the stop condition == the one registered
    cmpvar = None
    if stc:
        for c_ in ast.walk(stc[0]):
            if isinstance(c_, ast.Compare) and len(c_.ops) == 1 and isinstance(c_.ops[0], ast.Eq) and \
                    unparse(c_.left).endswith('.arg') and isinstance(c_.comparators[0], ast.Name) and \
                    any(pol and "== 'brace_close'" in unparse(t) for t, pol in atomic_facts(c_) + [
                        (x, True) for x in (getattr(c_, '_parent', None).values
                                            if isinstance(getattr(c_, '_parent', None), ast.BoolOp) else [])]):
                cmpvar = c_.comparators[0].id
    if cmpvar is None:
        ctx.unknown('R16h', w, f, 'comparison of the closing-brace token in stop_token_condition not found',
                    construct='get_latex_nodes: closing delimiter compared')
    else:
        def _is_sub(c_):
            return call_name(c_) == 'sub_context' and kwarg(c_, 'latex_group_delimiters') is not None
        cases = symex.sink_cases(f, _is_sub)
        n_h = 0
        for cs in cases:
            added = [t for t in ast.walk(kwarg(cs.sub, 'latex_group_delimiters'))
                     if isinstance(t, ast.Tuple) and len(t.elts) == 2]
            if not added:
                continue
            n_h += 1
            reg = added[-1].elts[1]
            cur = symex.subst(ast.Name(id=cmpvar, ctx=ast.Load()), cs.env)
            path = ' & '.join(cs.cond_src())[-100:]
            # the pair is registered exactly when that PAIR is not known yet (not merely its closing character)
            atoms_ = {(unparse(a_), ap_) for t_, p_ in cs.conds for a_, ap_ in symex._atoms(t_, p_)}
            ptxt = unparse(added[-1])
            okm = any((ap_ and t_.startswith(ptxt + ' not in ') and 'latex_group_delimiters' in t_) or
                      ((not ap_) and t_.startswith(ptxt + ' in ') and 'latex_group_delimiters' in t_) for t_, ap_ in atoms_)
            ctx.decide('R16h', okm, w, cs.node, 'the pair %s is added when that pair is not among the group delimiters' % ptxt,
                       'on the path [%s] the pair %s is added under another test than `%s not in <state>.latex_group_delimiters`: '
                       'when the closing character already closes ANOTHER pair of the state ((\'[\', \']\') known, stop at '
                       '(\'(\', \']\')), the opening character is never made a delimiter, nested groups are lost and the '
                       'collection stops at the first closer -- unlike the equivalent LatexGeneralNodesParser call'
                       % (path, ptxt, ptxt), construct='get_latex_nodes: pair membership test [%s]' % path[-60:])
            ctx.decide('R16h', unparse(reg) == unparse(cur), w, cs.node,
                       'the closing delimiter registered as group delimiter (%s) is the value the stop '
                       'condition compares tok.arg with' % short(reg),
                       'on the path [%s] the delimiter pair registered in the parsing state closes with '
                       '%s but the stop condition compares the token with %s (%s): with the documented '
                       '(open, close) form the closing token never stops the collection, where the '
                       'equivalent LatexGeneralNodesParser call succeeds'
                       % (path, short(reg), cmpvar, short(cur)),
                       construct='get_latex_nodes: closing delimiter [%s]' % path[-60:])
        if not n_h:
            ctx.unknown('R16h', w, f, 'no registration of the delimiter pair found',
                        construct='get_latex_nodes: closing delimiter registered')

    # ---- R16d
    sp = repo.mod(SPEC)
    ci = sp.methods('CallableSpec').get('__init__')
    if ci is None:
        raise AnalysisError('anchor vanished: CallableSpec.__init__')
    found = False
    for c in [c for c in iter_own(ci) if isinstance(c, ast.Call) and call_name(c) == 'LatexArgumentsParser']:
        found = True
        arg = unparse(c.args[0]) if c.args else None
        tests = [unparse(t) for t, pol in atomic_facts(c) if pol]
        ctx.decide('R16d', arg in tests, sp, c,
                   'LatexArgumentsParser(%s) under `if %s`' % (arg, arg),
                   'LatexArgumentsParser is built from %s but the enclosing test is on %s: when '
                   'the two differ (args_parser=<string> sets the attribute only) the spec parses '
                   'no arguments' % (arg, tests), construct='CallableSpec.__init__: ' + short(c))
    if not found:
        ctx.unknown('R16d', sp, ci, 'LatexArgumentsParser construction not found')
    # a hook that receives the object may re-assign its attributes: after the hook, the attribute is
    # read, not the local it was initialised from
    hook_attrs = {}
    for q_, g_ in sp.functions.items():
        if '.' in q_ or not g_.args.args:
            continue
        p0 = g_.args.args[0].arg
        for n_ in ast.walk(g_):
            if isinstance(n_, ast.Attribute) and isinstance(n_.ctx, ast.Store) and isinstance(n_.value, ast.Name) \
                    and n_.value.id == p0 and p0 != 'self':
                hook_attrs.setdefault(q_, set()).add(n_.attr)
    init_from = {}
    for st_ in iter_own(ci):
        if isinstance(st_, ast.Assign) and len(st_.targets) == 1 and is_self_attr(st_.targets[0]) and \
                isinstance(st_.value, ast.Name):
            init_from.setdefault(st_.value.id, []).append((st_.targets[0].attr, st_.lineno))
    for hc in [c_ for c_ in iter_own(ci) if isinstance(c_, ast.Call) and any(
            isinstance(a_, ast.Name) and a_.id == 'self' for a_ in c_.args)]:
        names = [hc.func.id] if isinstance(hc.func, ast.Name) else []
        names += [a_.value for a_ in hc.args if isinstance(a_, ast.Constant) and isinstance(a_.value, str)]
        attrs = set()
        for q_, as_ in hook_attrs.items():
            if any(q_ == nm_ or q_.endswith(nm_) for nm_ in names):
                attrs |= as_
        if not attrs:
            continue
        for n_ in iter_own(ci):
            if isinstance(n_, ast.Name) and isinstance(n_.ctx, ast.Load) and n_.lineno > hc.lineno and n_.id in init_from:
                stale = [a_ for a_, ln_ in init_from[n_.id] if a_ in attrs and ln_ < hc.lineno]
                par_ = getattr(n_, '_parent', None)
                if stale and not (isinstance(par_, ast.Call) and par_ is hc):
                    ctx.refuted('R16d', sp, enclosing_stmt(n_) or n_, 'CallableSpec.__init__ reads the local %s after the '
                                'legacy hook (%s) which may have re-assigned self.%s: a specification given as '
                                'args_parser=<string> sets the attribute only, so the spec is built from the stale value '
                                'and parses no arguments' % (n_.id, short(hc, 50), stale[0]),
                                construct='CallableSpec.__init__: stale %s after the hook' % n_.id)
                    break

    # ---- R16e
    written, read = {}, {}
    for mod in (sp, repo.mod(ARGP)):
        for n in ast.walk(mod.tree):
            if isinstance(n, ast.Attribute) and n.attr.startswith('_legacy_pyltxenc2_'):
                (written if isinstance(n.ctx, ast.Store) else read).setdefault(n.attr, (mod, n))
            if isinstance(n, ast.Call) and call_name(n) in ('getattr', 'hasattr', 'setattr') and \
                    len(n.args) >= 2 and isinstance(n.args[1], ast.Constant) and \
                    str(n.args[1].value).startswith('_legacy_pyltxenc2_'):
                (written if call_name(n) == 'setattr' else read).setdefault(n.args[1].value, (mod, n))
    for nm in sorted(set(written) | set(read)):
        if nm.startswith('_legacy_pyltxenc2_do') or nm in ('_legacy_pyltxenc2_CallableSpec_parse_args',):
            continue
        mod, node = (read.get(nm) or written.get(nm))
        ctx.decide('R16e', nm in written and nm in read, mod, enclosing_stmt(node) or node,
                   '%s is both written and read' % nm,
                   'legacy attribute %s is %s: the value handed over by a pylatexenc-2 args parser '
                   'is lost' % (nm, 'read but never written' if nm not in written else
                                'written but never read'), construct='legacy attribute ' + nm)

    # ---- R16f
    hp = repo.mod(HELP)
    sm = hp.functions.get('std_macro')
    se = hp.functions.get('std_environment')
    if sm is None or se is None:
        raise AnalysisError('anchor vanished: std_macro/std_environment')
    from .c03 import _concat_parts
    why = None
    seen = set()
    try:
        cases = symex.sink_cases(sm, lambda c: call_name(c) in ('MacroSpec', 'EnvironmentSpec') and len(c.args) >= 2)
    except symex.TooManyPaths as e:
        cases, why = [], str(e)
    vararg = sm.args.vararg.arg if sm.args.vararg else 'args'

    def _norm_items(e, env):
        class T(ast.NodeTransformer):
            def visit_Name(self, n):
                d_ = symex.item_def(n.id, env)
                if d_ and isinstance(d_[3], ast.AST):
                    return ast.Subscript(value=symex.clone(d_[3]),
                                         slice=ast.Constant(value=d_[1]), ctx=ast.Load())
                return n
        return T().visit(symex.clone(e))
    # the argument string may be computed by a module-level helper called with std_macro's own arguments: its
    # returning paths stand for the paths of std_macro (parameters replaced by the arguments of the call)
    class _HC(object):
        pass
    expanded = []
    for cs in cases:
        v_ = symex.resolve(cs.sub.args[1], cs.env)
        if isinstance(v_, ast.Call) and isinstance(v_.func, ast.Name) and v_.func.id in hp.functions and \
                hp.functions[v_.func.id] is not sm and not v_.keywords:
            h_ = hp.functions[v_.func.id]
            ren_ = dict(zip([a_.arg for a_ in h_.args.args], v_.args))
            try:
                hrs = [c_ for c_ in symex.Walker(want_returns=True).run(h_) if c_.kind == 'return']
            except symex.TooManyPaths:
                hrs = []
            for ic in hrs:
                o_ = _HC()
                o_.sub = ast.Call(func=cs.sub.func, args=[cs.sub.args[0], symex.subst(ic.sub, ren_)], keywords=[])
                o_.env = ic.env
                o_.conds = list(cs.conds) + [(symex.subst(t_, ren_), p_) for t_, p_ in ic.conds]
                o_.node = cs.node
                expanded.append(o_)
        else:
            expanded.append(cs)
    for cs in expanded:
        spec = _norm_items(cs.sub.args[1], cs.env)
        parts = [x for x in _concat_parts(spec) if not (isinstance(x, ast.Constant) and x.value == '')]
        mult = [x for x in parts if isinstance(x, ast.BinOp) and isinstance(x.op, ast.Mult)]
        if not mult:
            continue          # argument string given directly
        facts = set()
        for t_, pol in cs.conds:
            for a, ap in symex._atoms(_norm_items(t_, cs.env), pol):
                facts.add(symex.canon(a, ap))
        m0 = mult[0]
        cnt = m0.right if (isinstance(m0.left, ast.Constant) and m0.left.value == '{') else (
            m0.left if (isinstance(m0.right, ast.Constant) and m0.right.value == '{') else None)
        rep_ok = isinstance(cnt, ast.Subscript) and isinstance(cnt.slice, ast.Constant) and cnt.slice.value == 1
        base = unparse(cnt.value) if rep_ok else '?'
        opt = [p_ for t_, p_ in facts if t_ == '%s[0]' % base]
        bracket = len(parts) == 2 and isinstance(parts[0], ast.Constant) and parts[0].value == '['
        plain = len(parts) == 1
        if not rep_ok or not (bracket or plain) or not opt:
            why = 'the argument string is built as %s' % short(spec, 70)
            break
        seen.add((bracket, opt[0]))
    if why is None and seen != {(True, True), (False, False)}:
        why = 'bracket/optional-argument cases are %s' % sorted(seen)
    ctx.decide('R16f', why is None, hp, sm, "argspec = ('[' if optarg) + '{' * numargs -> MacroSpec(name, argspec)",
               'std_macro no longer builds the argument string from (optarg, numargs) as documented: %s' % why,
               construct='std_macro: argspec construction')
    # std_environment: forwards to std_macro with make_environment_spec=True and its is_math_mode
    fw = [c for c in ast.walk(se) if isinstance(c, ast.Call) and call_name(c) == 'std_macro']
    okse = False
    why = 'no call of std_macro'
    if fw:
        star = [k.value for k in fw[0].keywords if k.arg is None]
        given = dict((k.arg, unparse(k.value)) for k in fw[0].keywords if k.arg)
        if star and isinstance(star[0], ast.Name):
            K = star[0].id
            for st_ in ast.walk(se):
                if isinstance(st_, ast.Call) and call_name(st_) == 'update' and call_recv(st_) is not None \
                        and unparse(call_recv(st_)) == K:
                    given.update((k.arg, unparse(k.value)) for k in st_.keywords if k.arg)
                if isinstance(st_, ast.Assign) and isinstance(st_.targets[0], ast.Subscript) and \
                        unparse(st_.targets[0].value) == K and isinstance(st_.targets[0].slice, ast.Constant):
                    given[st_.targets[0].slice.value] = unparse(st_.value)
                if isinstance(st_, ast.Assign) and unparse(st_.targets[0]) == K and \
                        isinstance(st_.value, ast.Call) and call_name(st_.value) == 'dict':
                    given.update((k.arg, unparse(k.value)) for k in st_.value.keywords if k.arg)
        mmv = [unparse(x.targets[0]) for x in ast.walk(se) if isinstance(x, ast.Assign)
               and isinstance(x.value, ast.Call) and call_name(x.value) in ('pop', 'get') and x.value.args
               and isinstance(x.value.args[0], ast.Constant) and x.value.args[0].value == 'is_math_mode']
        okse = given.get('make_environment_spec') == 'True' and bool(mmv) and \
            given.get('environment_is_math_mode') == mmv[0]
        why = 'keywords forwarded: %s' % given
    ctx.decide('R16f', okse, hp, se, 'std_environment forwards to std_macro(make_environment_spec=True)',
               'std_environment does not forward to std_macro(..., make_environment_spec=True, '
               'environment_is_math_mode=<its is_math_mode>): %s' % why,
               construct='std_environment: forwarding')

    # ---- R16g
    bm = repo.mod(BASE)
    pa = bm.methods('MacroStandardArgsParser').get('parse_args')
    if pa is None:
        raise AnalysisError('anchor vanished: MacroStandardArgsParser.parse_args')
    posvar = None
    for s in iter_own(pa):
        if isinstance(s, ast.Assign) and isinstance(s.targets[0], ast.Name) and \
                unparse(s.value) == pa.args.args[2].arg:
            posvar = s.targets[0].id
    if posvar is None:
        ctx.unknown('R16g', bm, pa, 'running position variable not found')
    else:
        for s in iter_own(pa):
            tgt = None
            if isinstance(s, ast.Assign) and isinstance(s.targets[0], ast.Name) and s.targets[0].id == posvar:
                tgt, val = s, s.value
            elif isinstance(s, ast.AugAssign) and isinstance(s.target, ast.Name) and s.target.id == posvar:
                tgt, val = s, None
            if tgt is None:
                continue
            if val is not None and unparse(val) == pa.args.args[2].arg:
                continue   # initialisation p = pos
            ok = val is not None and posvar not in {n.id for n in ast.walk(val) if isinstance(n, ast.Name)}
            ctx.decide('R16g', ok, bm, s, 'advances to a position reported by the sub-parse',
                       '`%s` advances the running position by arithmetic on the query position: '
                       'whitespace skipped by the sub-parse (get_token / get_latex_expression) is '
                       'not accounted for, so positions and lengths differ from the new parsers'
                       % short(s), construct='parse_args: ' + short(s))
    ctx.assume('equality of the trees produced by the legacy and the new entry points on all inputs '
               'is not decided; the rules decide the wiring between them')
    # ---- R16o (C10 R10i): legacy args_math_mode entries
    ctx.rule('R16o', 'MacroStandardArgsParser: an args_math_mode entry False forces text mode and only None '
                     'keeps the mode, as the LatexArgumentSpec spelling does (C10 R10i)', 1)
    from . import c10 as _c10
    from .. import core as _core
    _core.run_proxied(ctx, _c10, 'R16o', ('R10i',))

    # ---- R16n
    ctx.rule('R16n', 'a boolean option of a legacy method that selects a parsing-state switch (environments) reaches '
                     'the state as itself for each of True / False / None and either value of the switch in the '
                     'given state (evaluated per path)', 1)
    _flag_options(ctx, w)

    # ---- R16p, R16q
    ctx.rule('R16p', 'legacy entry points read only attributes that the object returned by an arguments parser '
                     '(ParsedArguments) defines', 0)
    _parsed_arguments_typed(ctx, repo)
    ctx.rule('R16q', 'MacroStandardArgsParser: end of input where an optional star may stand means "no star" '
                     '(token read inside a handler for LatexWalkerEndOfStream)', 1)
    _legacy_star_at_eos(ctx, repo)

    # ---- R16r, R16s
    ctx.rule('R16r', 'error-strictness options (*_is_error) of the parsers built by legacy methods are on when the '
                     'walker is strict', 1)
    _strictness_follows_walker(ctx, w)
    ctx.rule('R16s', 'MacroStandardArgsParser.parse_args: every sub-parse given a token reader reads from the running '
                     'position (fresh reader at pos=p, or a kept reader re-positioned whenever p changes)', 1)
    _reader_at_running_position(ctx, repo)

    # ---- R16t
    ctx.rule('R16t', 'get_latex_expression() swallows only the unexpected-closing-brace error of the expression parser', 1)
    _swallowed_error_is_closing_brace(ctx, repo, w)

    # ---- R16u, R16v
    ctx.rule('R16u', 'legacy methods build a default parsing state only when none was given; otherwise they derive from the '
                     'caller\'s state', 5)
    shim_state_derivation(ctx, 'R16u', w)
    ctx.rule('R16v', 'the obsolete is_math_mode option installs the math-mode body delta exactly when it is true (False and '
                     'None both mean text mode, as for the pylatexenc-3 spelling without a body delta)', 1)
    try:
        mm_cases = symex.Walker(is_sink=lambda c: call_name(c) == 'ParsingStateDeltaEnterMathMode').run(ci)
    except symex.TooManyPaths:
        mm_cases = []
    okv = bool(mm_cases)
    for cs in mm_cases:
        facts = symex.facts_of(cs.conds)
        okv = okv and (('self.is_math_mode', True) in facts or ('self.is_math_mode is True', True) in facts)
    ctx.decide('R16v', okv, sp, mm_cases[0].node if mm_cases else ci,
               'ParsingStateDeltaEnterMathMode() is installed under `self.is_math_mode` true',
               'CallableSpec.__init__ installs the math-mode body delta on a path that does not test is_math_mode for truth '
               '(%s): an explicit is_math_mode=False makes the body of the environment be parsed in math mode'
               % (' & '.join(mm_cases[0].cond_src())[-100:] if mm_cases else 'no such path'),
               construct='CallableSpec.__init__: is_math_mode')

    # ---- R16y (C02 R02j): what a legacy args parser did not report is not a state change
    ctx.rule('R16y', 'a macro given through a legacy args parser replaces the parsing state of what follows only by the state '
                     'that parser reported (None otherwise), never by the state the node itself was parsed in: inside '
                     '`[...]` that is the outer state, and the closing bracket would read as a plain character, unlike with '
                     'the argument-string spelling (C02 R02j)', 1)
    from . import c02 as _c02
    from .. import core as _core2
    _core2.run_proxied(ctx, _c02, 'R16y', ('R02j',))

    # ---- R16ab: extra delimiters are added to the caller's, not put in their place
    ctx.rule('R16ab', 'a legacy method that needs more group delimiters (include_brace_chars, stop_upon_closing_brace) builds the new '
                      'list from <state>.latex_group_delimiters of the state it was given: a list started afresh from the default '
                      'braces forgets the pairs the caller\'s state already has, and their opening characters come back as plain '
                      'characters where LatexTokenReader with the equivalent state reports brace_open', 2)
    n_gd = 0
    for q_, f_ in sorted(w.functions.items()):
        if not q_.startswith('_pyltxenc2_'):
            continue
        ldefs = {}
        for a_ in iter_own(f_):
            if isinstance(a_, ast.Assign) and len(a_.targets) == 1 and isinstance(a_.targets[0], ast.Name):
                ldefs.setdefault(a_.targets[0].id, []).append(a_.value)
        vals = []
        for n_ in iter_own(f_):
            if isinstance(n_, ast.Call) and call_name(n_) in ('sub_context', 'make_parsing_state') and \
                    kwarg(n_, 'latex_group_delimiters') is not None:
                vals.append((n_, kwarg(n_, 'latex_group_delimiters')))
            elif isinstance(n_, ast.Assign) and len(n_.targets) == 1 and isinstance(n_.targets[0], ast.Subscript) and \
                    isinstance(n_.targets[0].slice, ast.Constant) and n_.targets[0].slice.value == 'latex_group_delimiters':
                vals.append((n_, n_.value))
        for node_, v_ in vals:
            if isinstance(v_, ast.Name) and len(ldefs.get(v_.id, [])) == 1:
                v_ = ldefs[v_.id][0]
            n_gd += 1
            based = any(isinstance(x_, ast.Attribute) and x_.attr == 'latex_group_delimiters' for x_ in ast.walk(v_))
            ctx.decide('R16ab', based, w, node_, '%s: new delimiter list built on the given state\'s list' % q_,
                       '%s sets latex_group_delimiters to %s, which does not start from the delimiters of the parsing state it '
                       'was given: with a state that already knows a non-default pair, that pair is dropped for this call'
                       % (q_, short(v_, 60)), construct='%s: latex_group_delimiters' % q_)
    if n_gd < 2:
        ctx.unknown('R16ab', w, None, 'only %d delimiter-list constructions found in the legacy methods' % n_gd,
                    construct='legacy delimiter lists')

    # ---- R16ad: bracket tables of the legacy methods pair each closing character with its own opening character
    ctx.rule('R16ad', 'every constant table in the legacy walker code that relates bracket characters (a dict literal or '
                      'dict(zip(..)) from closing to opening characters, a two-element [open, close] list or tuple) pairs '
                      '{ with }, [ with ], ( with ) and < with >: get_latex_nodes(stop_upon_closing_brace=\')\') must register '
                      'the pair (\'(\', \')\') -- the state the new parser API would be given -- not a pair of two different '
                      'bracket kinds (evaluated from the source; exercised on a built-in example on every run)', 1)
    _PAIR16 = {'{': '}', '[': ']', '(': ')', '<': '>'}
    _BR16 = set(_PAIR16) | set(_PAIR16.values())

    def _seq16(e_):
        if isinstance(e_, ast.Constant) and isinstance(e_.value, str):
            return list(e_.value)
        if isinstance(e_, (ast.List, ast.Tuple)) and all(isinstance(x_, ast.Constant) and isinstance(x_.value, str)
                                                         for x_ in e_.elts):
            return [x_.value for x_ in e_.elts]
        return None

    def _bracket_tables(tree_):
        """yield (node, [(a, b), ...]) for constant bracket relations"""
        for n_ in ast.walk(tree_):
            if isinstance(n_, ast.Dict) and n_.keys and all(
                    isinstance(k_, ast.Constant) and isinstance(v_, ast.Constant) and k_.value in _BR16 and v_.value in _BR16
                    for k_, v_ in zip(n_.keys, n_.values)):
                yield n_, [(k_.value, v_.value) for k_, v_ in zip(n_.keys, n_.values)]
            elif isinstance(n_, ast.Call) and call_name(n_) == 'dict' and len(n_.args) == 1 and \
                    isinstance(n_.args[0], ast.Call) and call_name(n_.args[0]) == 'zip' and len(n_.args[0].args) == 2:
                a_, b_ = _seq16(n_.args[0].args[0]), _seq16(n_.args[0].args[1])
                if a_ is not None and b_ is not None and a_ and set(a_) | set(b_) <= _BR16:
                    yield n_, list(zip(a_, b_))
            elif isinstance(n_, (ast.List, ast.Tuple)) and len(n_.elts) == 2 and isinstance(getattr(n_, 'ctx', None), ast.Load):
                ab_ = _seq16(n_)
                if ab_ is not None and ab_[0] in _PAIR16 and ab_[1] in _PAIR16.values():
                    yield n_, [tuple(ab_)]

    def _bad16(pairs_):
        return [(a_, b_) for a_, b_ in pairs_ if not (_PAIR16.get(a_) == b_ or _PAIR16.get(b_) == a_)]
    ex16d_ = ast.parse("def f(c):\n    return dict(zip('}])>', '{[<(')).get(c), {'}': '{', ')': '('}, ['(', ')'], ('<', ']')\n")
    if [bool(_bad16(p_)) for _n, p_ in _bracket_tables(ex16d_)] != [True, False, False, True] and \
            sorted(bool(_bad16(p_)) for _n, p_ in _bracket_tables(ex16d_)) != [False, False, True, True]:
        raise AnalysisError('R16ad: the bracket-table rule no longer fires on its built-in example')
    n16d = 0
    for mn_, mod_ in sorted(repo.modules.items()):
        if not mn_.startswith('pylatexenc.latexwalker'):
            continue
        for node_, pairs_ in _bracket_tables(mod_.tree):
            n16d += 1
            bad_ = _bad16(pairs_)
            fn_ = enclosing_func(node_)
            q_ = getattr(fn_, '_qualname', '<module>')
            ctx.decide('R16ad', not bad_, mod_, node_, '%s: %s pairs matching brackets' % (q_, short(node_, 40)),
                       '%s: the bracket table %s relates %s: a closing character is paired with the opening character of another '
                       'bracket kind, so the legacy call registers a delimiter pair such as (\'<\', \')\') -- the opening '
                       'character the caller means stays a plain character and nested groups end the list early, unlike the '
                       'new parser API with the matching pair'
                       % (q_, short(node_, 50), ', '.join('%r with %r' % ab_ for ab_ in bad_)),
                       construct='%s: bracket table %s' % (q_, ''.join(a_ for a_, _b in pairs_)))
    if not n16d:
        ctx.unknown('R16ad', w, None, 'no constant bracket table found in the legacy walker code', construct='bracket tables')

    # ---- R16ae: the legacy methods start reading exactly at the position they are given
    ctx.rule('R16ae', 'a legacy method that delegates to parse_content() hands it a token reader positioned at the caller\'s `pos` '
                      'and does not move that reader itself (skip_space_chars / next_chars / next_token / move_* in the method '
                      'body, nested handlers aside) before the parser runs: what stands at `pos` -- white space included -- is '
                      'seen by the parser exactly as the pylatexenc-3 call with a reader at `pos` sees it '
                      '(get_latex_environment at a blank in front of \\begin must fail like LatexSingleNodeParser does)', 1)
    ADV16 = ('skip_space_chars', 'next_chars', 'next_token', 'move_to_pos_chars', 'move_past_token', 'move_to_token',
             'peek_space_chars')
    n16e = 0
    for q_, f_ in sorted(w.functions.items()):
        if not q_.startswith('_pyltxenc2_LatexWalker_') or '.' in q_:
            continue
        pcs_ = [c_ for c_ in iter_own(f_) if isinstance(c_, ast.Call) and call_name(c_) == 'parse_content']
        if not pcs_:
            continue
        n16e += 1
        adv_ = [c_ for c_ in iter_own(f_) if isinstance(c_, ast.Call) and call_name(c_) in ADV16
                and min(p_.lineno for p_ in pcs_) > c_.lineno]
        ctx.decide('R16ae', not adv_, w, adv_[0] if adv_ else f_, '%s: the reader is not moved before parse_content' % q_,
                   '%s calls %s before handing the reader to parse_content(): the legacy call then starts reading somewhere '
                   'else than at the position it was given, and succeeds (or answers with other positions) where the '
                   'pylatexenc-3 parser with a reader at that position raises or returns a white-space node'
                   % (q_, short(adv_[0], 50) if adv_ else ''), construct='%s: reader moved before parse_content' % q_)
    if not n16e:
        ctx.unknown('R16ae', w, None, 'no legacy method calling parse_content found', construct='legacy reader position')

    # ---- R16ac: a test on the current position is made where the position is current
    ctx.rule('R16ac', 'the legacy argument parsers compute no test of the reading position (is there white space at p, are we at '
                      'the end) once in front of the argument loop and use it inside the loop, where p has moved: '
                      'optional_arg_no_space is decided at the position of each `[` slot, as the pylatexenc-3 argument parser '
                      'does (grules.stale_hoisted_tests; exercised on a built-in example on every run)', 1)
    from .. import grules as _gr16
    from ..core import set_parents as _sp16
    ex16_ = ast.parse('def f(s, p, spec):\n    sp = p < len(s) and s[p].isspace()\n    for a in spec:\n        if sp:\n'
                      '            continue\n        p = p + 1\n    return p\n')
    _sp16(ex16_)
    if len(list(_gr16.stale_hoisted_tests(ex16_.body[0]))) != 1:
        raise AnalysisError('R16ac: the stale-test rule no longer fires on its built-in example')
    n_sh = 0
    for mn_, mod_ in sorted(repo.modules.items()):
        if '_pyltxenc2_argparsers' not in mn_:
            continue
        for q_, f_ in sorted(mod_.functions.items()):
            n_sh += 1
            for a_, v_, lp_, use_ in _gr16.stale_hoisted_tests(f_):
                ctx.refuted('R16ac', mod_, a_, '%s computes `%s` once before the loop at line %d, but `%s` is re-assigned inside that '
                            'loop and the loop still branches on the old answer (%s): for every argument after the first the test '
                            'speaks about the position in front of the arguments -- `\\cmd{a} [b]` with optional_arg_no_space '
                            'reads [b] as an optional argument where the pylatexenc-3 parser with the same spec does not'
                            % (q_, short(a_, 70), lp_.lineno, v_, short(use_.test, 40)),
                            construct='%s: test of %s computed before the loop' % (q_, v_))
    if not n_sh:
        raise AnalysisError('anchor vanished: no function in the legacy argument parser modules')
    ctx.holds('R16ac', repo.mod(BASE), None, 'no stale position test in the legacy argument parsers (%d functions; built-in '
                                             'example flagged)' % n_sh, construct='stale test scan', trivial=True)

    # ---- R16z: the environment name that is checked is the one that was written
    ctx.rule('R16z', 'get_latex_environment compares the requested name with the node\'s own environmentname (what the source '
                     'says), not with a name taken from the specification: an environment without a specification of its own '
                     'gets the catch-all specification, whose name is empty', 1)
    n_en = 0
    for q_, f_ in sorted(w.functions.items()):
        if 'environmentname' not in [a_.arg for a_ in f_.args.args] or 'get_latex_environment' not in q_ and 'environment' not in q_:
            continue
        defs_ = {}
        for a_ in iter_own(f_):
            if isinstance(a_, ast.Assign) and len(a_.targets) == 1 and isinstance(a_.targets[0], ast.Name):
                defs_.setdefault(a_.targets[0].id, []).append(a_.value)
        for c_ in iter_own(f_):
            if not (isinstance(c_, ast.Compare) and len(c_.ops) == 1 and isinstance(c_.ops[0], (ast.NotEq, ast.Eq))):
                continue
            sides = [c_.left, c_.comparators[0]]
            if not any(isinstance(x_, ast.Name) and x_.id == 'environmentname' for x_ in sides):
                continue
            other = [x_ for x_ in sides if not (isinstance(x_, ast.Name) and x_.id == 'environmentname')][0]
            if isinstance(other, ast.Constant):
                continue
            if isinstance(other, ast.Name) and len(defs_.get(other.id, [])) == 1:
                other = defs_[other.id][0]
            n_en += 1
            txt = unparse(other)
            ctx.decide('R16z', txt.endswith('.environmentname') and '.spec' not in txt, w, c_,
                       'requested name compared with %s' % txt,
                       '%s compares the requested environment name with %s, not with the environmentname of the parsed node: '
                       'for an environment the context has no specification for, the specification is the catch-all one (name '
                       '\'\') and get_latex_environment(pos, environmentname=\'mybox\') raises although the source says '
                       '\\begin{mybox}' % (q_, txt), construct='%s: environment name check' % q_)
    if not n_en:
        ctx.unknown('R16z', w, None, 'comparison with the requested environment name not found', construct='environment name check')

    # ---- R16w: the fixed options of the parser a shim builds
    ctx.rule('R16w', 'the constant options a legacy method passes to the parser it builds (other than values equal to the '
                     'constructor\'s default) are exactly the reviewed ones that reproduce the pylatexenc-2 behaviour: '
                     'get_latex_expression return_full_node_list=False, allow_pre_space, allow_pre_comments; '
                     'get_latex_braced_group allow_pre_space; none for get_latex_nodes, get_latex_environment and '
                     'get_latex_maybe_optional_arg, whose documented equivalent is the default-constructed parser', 5)
    for name in SHIMS:
        if name == 'get_token':
            continue
        f = w.functions['_pyltxenc2_LatexWalker_' + name]
        ctor = [c for c in iter_own(f) if isinstance(c, ast.Call) and isinstance(c.func, ast.Attribute)
                and unparse(c.func.value) == 'parsers']
        if not ctor:
            ctx.unknown('R16w', w, f, 'parser construction not found', construct=name + ': fixed parser options')
            continue
        c0 = ctor[0]
        eff = {}
        for k_ in c0.keywords:
            if k_.arg is None or not isinstance(k_.value, ast.Constant):
                continue
            dflt = _ctor_default(repo, c0.func.attr, k_.arg)
            if dflt is not None and isinstance(dflt, ast.Constant) and dflt.value == k_.value.value \
                    and type(dflt.value) is type(k_.value.value):
                continue
            eff[k_.arg] = k_.value.value
        want = SHIM_FIXED_OPTIONS[name]
        extra = sorted(k_ for k_ in eff if k_ not in want or want[k_] != eff[k_])
        missing = sorted(k_ for k_ in want if k_ not in eff and not any(kk.arg == k_ for kk in c0.keywords))
        ctx.decide('R16w', not extra and not missing, w, c0,
                   '%s(%s): fixed options as reviewed' % (c0.func.attr, ', '.join('%s=%r' % kv for kv in sorted(eff.items()))),
                   'legacy %s builds %s with %s: the legacy call then accepts or returns something else than the parser it is '
                   'documented to be equivalent to (for instance an optional argument after white space where '
                   'LatexOptionalSquareBracketsParser() reports it absent and the documented result is None)'
                   % (name, c0.func.attr, '; '.join(
                       ['%s=%r, which is not a reviewed fixed option' % (k_, eff[k_]) for k_ in extra] +
                       ['without the fixed option %s=%r' % (k_, want[k_]) for k_ in missing])),
                   construct=name + ': fixed parser options')

    # ---- R16x: one slot per declared argument
    ctx.rule('R16x', 'MacroStandardArgsParser.parse_args: every turn of the loop over the argument letters appends exactly one '
                     'entry to the argument list and the loop is never left early: the list has one slot per letter, like '
                     'the one LatexArgumentsParser builds from the same letters', 1)
    am = repo.mod(BASE)
    pa_ = am.functions.get("MacroStandardArgsParser.parse_args")
    lps_ = [l_ for l_ in iter_own(pa_) if isinstance(l_, ast.For) and 'argspec' in unparse(l_.iter)] if pa_ is not None else []
    if not lps_:
        ctx.unknown('R16x', am or w, pa_, 'loop over the argument letters not found', construct='parse_args: slots')
    else:
        lp_ = lps_[0]
        lists_ = {unparse(call_recv(c_)) for c_ in iter_own(lp_) if isinstance(c_, ast.Call) and call_name(c_) == 'append'
                  and call_recv(c_) is not None}
        try:
            xcs = symex.Walker(is_sink=lambda c_: call_name(c_) == 'append' and call_recv(c_) is not None
                               and unparse(call_recv(c_)) in lists_, want_exits=True, want_raises=True, trace=True
                               ).run_block(lp_.body)
        except symex.TooManyPaths as e:
            xcs = None
            ctx.unknown('R16x', am, lp_, str(e), construct='parse_args: slots')
        if xcs is not None:
            badx = None
            n_paths = 0
            for cs in xcs:
                if cs.kind not in ('end', 'continue', 'break', 'return'):
                    continue
                n_paths += 1
                napp = len([1 for nd_, sub_ in cs.env.get('#trace', ()) if call_name(sub_) == 'append'])
                if (cs.kind in ('break', 'return') or napp != 1) and badx is None:
                    badx = (cs, napp)
            ctx.decide('R16x', badx is None and n_paths > 0, am, (badx[0].node if badx and badx[0].node is not None else lp_),
                       '%d path(s) through one turn of the loop: each appends one slot and goes on' % n_paths,
                       'parse_args: on the path [%s] a turn of the loop over the argument letters %s: the argument list gets '
                       'fewer or more entries than the specification has letters (a macro declared `*[{` called at the very '
                       'end of the input gets one slot), unlike the list the new arguments parser builds'
                       % (' & '.join(badx[0].cond_src())[-140:] if badx else '',
                          ('ends the loop (%s)' % badx[0].kind) if badx and badx[0].kind in ('break', 'return')
                          else ('appends %d entries' % (badx[1] if badx else 0))),
                       construct='parse_args: slots')

    return 'other', (
        'Decides the wiring of the backward-compatible entry points onto the new parser objects: '
        'which parser each one builds, that every option is live and forwarded, that stop options '
        'agree between the stop predicate and the required-stop flag, the result triple, the spec '
        'adapters and the legacy attribute names.  Tree equality on all inputs is not decided.')


def _eval3(e, assume):
    """three-valued evaluation of a substituted test: True / False / None (unknown)"""
    if isinstance(e, ast.Constant):
        return bool(e.value)
    k = unparse(e)
    if k in assume:
        return assume[k]
    if isinstance(e, ast.UnaryOp) and isinstance(e.op, ast.Not):
        v = _eval3(e.operand, assume)
        return None if v is None else (not v)
    if isinstance(e, ast.BoolOp):
        vs = [_eval3(x, assume) for x in e.values]
        if isinstance(e.op, ast.And):
            return False if False in vs else (None if None in vs else True)
        return True if True in vs else (None if None in vs else False)
    if isinstance(e, ast.Compare) and len(e.ops) == 1 and isinstance(e.left, ast.Constant) and \
            isinstance(e.comparators[0], ast.Constant):
        a, b = e.left.value, e.comparators[0].value
        op = e.ops[0]
        if isinstance(op, ast.Is):
            return a is b
        if isinstance(op, ast.IsNot):
            return a is not b
        if isinstance(op, ast.Eq):
            return a == b
        if isinstance(op, ast.NotEq):
            return a != b
    return None


def _var_of(f, call):
    st = enclosing_stmt(call)
    if isinstance(st, ast.Assign) and isinstance(st.targets[0], ast.Name):
        return st.targets[0].id
    return unparse(call)


_W_FUNCS = {}


def _triple_ok(f, ret, nv, pv, lv, name):
    defs = {}
    for s in iter_own(f):
        if isinstance(s, ast.Assign) and s.lineno < ret.lineno:
            if isinstance(s.targets[0], ast.Tuple) and isinstance(s.value, ast.Tuple):
                for t, v in zip(s.targets[0].elts, s.value.elts):
                    defs.setdefault(unparse(t), []).append(unparse(v))
            else:
                defs.setdefault(unparse(s.targets[0]), []).append(unparse(s.value))
    # (p, l) unpacked from a module-level helper called with the node and the end position: its returning paths,
    # parameters replaced by the arguments and locals expanded, give the definitions
    for s in iter_own(f):
        if isinstance(s, ast.Assign) and s.lineno < ret.lineno and isinstance(s.targets[0], ast.Tuple) and \
                isinstance(s.value, ast.Call) and isinstance(s.value.func, ast.Name) and s.value.func.id in _W_FUNCS \
                and [unparse(t) for t in s.targets[0].elts] == [pv, lv]:
            h = _W_FUNCS[s.value.func.id]
            ren = dict(zip([a.arg for a in h.args.args], s.value.args))
            try:
                hrs = [c for c in symex.Walker(want_returns=True).run(h) if c.kind == 'return']
            except symex.TooManyPaths:
                hrs = []
            for c in hrs:
                v = c.sub
                if isinstance(v, ast.Tuple) and len(v.elts) == 2:
                    a, b = [unparse(symex.subst(symex.expand(e, c.env), ren)) for e in v.elts]
                    defs.setdefault(pv, []).append(a)
                    defs.setdefault(lv, []).append(b.replace(a, pv) if a != 'None' else b)
    pdefs, ldefs = defs.get(pv, [pv]), defs.get(lv, [lv])
    ok_p = all(d in (nv + '.pos', 'pos', 'None', 'envnode.pos') for d in pdefs)
    if name == 'get_latex_nodes':
        ok_l = all(d in ('pos_end - p', 'None') for d in ldefs) and \
            defs.get('pos_end', [''])[-1] == 'token_reader.cur_pos()'
        return ok_p and ok_l, 'pos = nodes.pos, len = reader position after parsing - pos'
    ok_l = all(d in (nv + '.len', '0', 'envnode.len') for d in ldefs)
    return ok_p and ok_l, 'pos/len are those of the returned node (or (pos, 0) when empty)'


def _required_when(f, var):
    """Set of parameters X such that `X is not None` makes `var` True, from the if/elif chain or a
    boolean expression; None if not determinable."""
    assigns = [s for s in iter_own(f) if isinstance(s, ast.Assign) and unparse(s.targets[0]) == var]
    if not assigns:
        return None
    out = set()
    for s in assigns:
        v = s.value
        if isinstance(v, ast.Constant):
            if v.value is True:
                pos = [unparse(t) for t, pol in atomic_facts(s) if pol]
                hit = [re.match(r'(\w+) is not None$', t) for t in pos]
                hit = [h.group(1) for h in hit if h]
                if not hit:
                    return None
                out.add(hit[0])
            continue
        # boolean expression of `X is not None` disjuncts
        parts = v.values if isinstance(v, ast.BoolOp) and isinstance(v.op, ast.Or) else [v]
        for p in parts:
            h = re.match(r'(\w+) is not None$', unparse(p))
            if not h:
                return None
            out.add(h.group(1))
    return out



_UNK = object()


def _pval(e, assume):
    """value of a substituted expression under `assume` (text -> python value), else _UNK"""
    if isinstance(e, ast.Constant):
        return e.value
    k = unparse(e)
    if k in assume:
        return assume[k]
    if isinstance(e, ast.UnaryOp) and isinstance(e.op, ast.Not):
        v = _pval(e.operand, assume)
        return _UNK if v is _UNK else (not v)
    if isinstance(e, ast.BoolOp):
        vs = [_pval(x, assume) for x in e.values]
        if isinstance(e.op, ast.And):
            for v in vs:
                if v is _UNK:
                    return _UNK if not any(w is not _UNK and not w for w in vs) else False
                if not v:
                    return v
            return vs[-1]
        for v in vs:
            if v is _UNK:
                return _UNK if not any(w is not _UNK and w for w in vs) else True
            if v:
                return v
        return vs[-1]
    if isinstance(e, ast.Compare) and len(e.ops) == 1:
        a, b = _pval(e.left, assume), _pval(e.comparators[0], assume)
        if a is _UNK or b is _UNK:
            return _UNK
        op = e.ops[0]
        if isinstance(op, ast.Is):
            return a is b
        if isinstance(op, ast.IsNot):
            return a is not b
        if isinstance(op, ast.Eq):
            return a == b
        if isinstance(op, ast.NotEq):
            return a != b
    if isinstance(e, ast.Call) and isinstance(e.func, ast.Name) and e.func.id == 'bool' and len(e.args) == 1:
        v = _pval(e.args[0], assume)
        return _UNK if v is _UNK else bool(v)
    if isinstance(e, ast.IfExp):
        t = _pval(e.test, assume)
        if t is _UNK:
            return _UNK
        return _pval(e.body if t else e.orelse, assume)
    return _UNK


def _flag_options(ctx, w):
    """R16n: a boolean option of a legacy method that selects a parsing-state switch
    (environments -> enable_environments) ends up in the state as itself: for every value of the
    option (True, False, None = keep) and of the switch in the given state, on every feasible
    path, the switch finally is the option's value (or unchanged for None)"""
    n = 0
    for shim, fnode in sorted(w.functions.items()):
        if not shim.startswith('_pyltxenc2_LatexWalker_') or '.' in shim:
            continue
        params = [a.arg for a in fnode.args.args[1:]]
        stores = {}
        for st in iter_own(fnode):
            if isinstance(st, ast.Assign) and len(st.targets) == 1 and isinstance(st.targets[0], ast.Subscript) \
                    and isinstance(st.targets[0].slice, ast.Constant) and \
                    str(st.targets[0].slice.value).startswith('enable_'):
                stores.setdefault(st.targets[0].slice.value, []).append(st)
        for field, sts in sorted(stores.items()):
            mention = set()
            for st in sts:
                for e in [st.value] + [t for t, _p in atomic_facts(st)]:
                    mention |= {x.id for x in ast.walk(e) if isinstance(x, ast.Name) and x.id in params}
            mention -= {'parsing_state'}
            if len(mention) != 1:
                continue
            opt = sorted(mention)[0]
            try:
                cases = symex.Walker(want_exits=True, trace=True, stmt_sink=lambda s_: s_ in sts).run(fnode)
            except symex.TooManyPaths:
                ctx.unknown('R16n', w, fnode, 'too many paths', construct='%s: option %s' % (shim, opt))
                continue
            n += 1
            bad = unk = None
            for ov in (True, False, None):
                for sv in (True, False):
                    assume = {opt: ov, 'parsing_state.' + field: sv, 'parsing_state is None': False}
                    want = sv if ov is None else ov
                    for cs in cases:
                        if cs.kind not in ('return', 'end'):
                            continue
                        if any((_pval(t, assume) is not _UNK) and bool(_pval(t, assume)) != pol for t, pol in cs.conds):
                            continue
                        last = [t_ for t_ in cs.env.get('#trace', ()) if t_[0] in sts]
                        got = sv
                        if last:
                            got = _pval(symex.subst(last[-1][0].value, cs.env), assume)
                            # the trace records the statement; its value is evaluated with the option bound
                            if got is _UNK:
                                got = _pval(last[-1][0].value, assume)
                        if got is _UNK:
                            unk = unk or (ov, sv, cs)
                        elif bool(got) != bool(want) and bad is None:
                            bad = (ov, sv, got, cs)
            cons = '%s: option %s -> %s' % (shim.replace('_pyltxenc2_LatexWalker_', ''), opt, field)
            if bad is not None:
                ctx.refuted('R16n', w, sts[0], 'with %s=%r and a parsing state whose %s is %r the token is read with '
                            '%s=%r on the path [%s]: the option does not reach the state as itself, so \\begin/\\end '
                            'are tokenised differently from a token reader given the state the option describes'
                            % (opt, bad[0], field, bad[1], field, bad[2], ' & '.join(bad[3].cond_src())[-140:]),
                            construct=cons)
            elif unk is not None:
                ctx.unknown('R16n', w, sts[0], 'value stored for %s not evaluable with %s=%r' % (field, opt, unk[0]),
                            construct=cons)
            else:
                ctx.holds('R16n', w, sts[0], 'for %s in (True, False, None) x state %s in (True, False): the switch '
                          'ends as the option says on every feasible path' % (opt, field), construct=cons)
    if n == 0:
        ctx.unknown('R16n', w, None, 'no boolean option mapped to a parsing-state switch found',
                    construct='flag options')



def _parsed_arguments_typed(ctx, repo):
    """R16p: what an arguments parser returns is a ParsedArguments object; the legacy entry points
    read only attributes that class has (it carries no position or length)"""
    pm = repo.mod('pylatexenc.latexnodes._parsedargs')
    cls = pm.cls('ParsedArguments')
    have = set()
    for n in ast.walk(cls):
        if isinstance(n, ast.FunctionDef):
            have.add(n.name)
        if isinstance(n, ast.Attribute) and isinstance(n.ctx, ast.Store) and isinstance(n.value, ast.Name) \
                and n.value.id == 'self':
            have.add(n.attr)
        if isinstance(n, ast.Assign) and getattr(n, '_parent', None) is cls:
            for t in n.targets:
                if isinstance(t, ast.Name):
                    have.add(t.id)
    # the _fields tuple names attributes set through setattr-style helpers
    for n in ast.walk(cls):
        if isinstance(n, ast.Assign) and any(isinstance(t, ast.Name) and t.id == '_fields' for t in n.targets) \
                and isinstance(n.value, (ast.Tuple, ast.List)):
            have |= {e.value for e in n.value.elts if isinstance(e, ast.Constant)}
    n_reads = 0
    for modname in (SPEC, ARGP, WALKER):
        mod = repo.mod(modname)
        for q, f in sorted(mod.functions.items()):
            typed = set()
            for st in iter_own(f):
                if isinstance(st, ast.Assign) and isinstance(st.value, ast.Call) and call_name(st.value) == 'parse_content' \
                        and st.value.args and unparse(st.value.args[0]).endswith('.arguments_parser') \
                        and isinstance(st.targets[0], ast.Tuple) and st.targets[0].elts \
                        and isinstance(st.targets[0].elts[0], ast.Name):
                    typed.add(st.targets[0].elts[0].id)
            for x in iter_own(f):
                if isinstance(x, ast.Attribute) and isinstance(x.ctx, ast.Load) and isinstance(x.value, ast.Name) \
                        and x.value.id in typed:
                    n_reads += 1
                    ctx.decide('R16p', x.attr in have or x.attr.startswith('__'), mod, enclosing_stmt(x) or x,
                               '%s.%s is an attribute of ParsedArguments' % (x.value.id, x.attr),
                               '%s reads %s.%s from the object an arguments parser returned: ParsedArguments has no '
                               'attribute %s (it carries no position or length), so the legacy entry point raises '
                               'AttributeError for every specification instead of returning (arguments, pos, len)'
                               % (q, x.value.id, x.attr, x.attr), construct='%s: %s.%s' % (q, x.value.id, x.attr))
    ctx.holds('R16p', repo.mod(SPEC), None, '%d attribute read(s) on parsed-arguments results examined against the %d '
              'attributes ParsedArguments defines' % (n_reads, len(have)), construct='parsed arguments attribute scan',
              trivial=True)


def _legacy_star_at_eos(ctx, repo):
    """R16q: the legacy parser reads the token for an optional star inside a handler for the end
    of the input (no token = no star), as the new parser does (C02 R02k)"""
    bm = repo.mod(BASE)
    pa = bm.methods('MacroStandardArgsParser').get('parse_args')
    if pa is None:
        raise AnalysisError('anchor vanished: MacroStandardArgsParser.parse_args')
    n = 0
    for c in [x for x in iter_own(pa) if isinstance(x, ast.Call) and call_name(x) == 'get_token']:
        facts = [(unparse(t), pol) for t, pol in atomic_facts(c)]
        if not any(pol and "== '*'" in t for t, pol in facts):
            continue
        n += 1
        prot = False
        for p_ in parents(c):
            if isinstance(p_, ast.Try) and any(c is x for b in p_.body for x in ast.walk(b)) and any(
                    hd.type is None or any(nm in unparse(hd.type) for nm in (
                        'LatexWalkerEndOfStream', 'LatexWalkerError', 'Exception')) for hd in p_.handlers):
                prot = True
        ctx.decide('R16q', prot, bm, c, 'the star token is read inside a handler for end of stream',
                   'the token for an optional star is read outside any handler for LatexWalkerEndOfStream: at the end '
                   'of the input the exception aborts the whole argument list (nodeargd is None) where the same '
                   'signature given as an argument string reports the star absent', construct='parse_args: star at end of input')
    if n == 0:
        ctx.unknown('R16q', bm, pa, 'no token read for a star slot found', construct='parse_args: star at end of input')



def _strictness_follows_walker(ctx, w):
    """R16r: an error-strictness option (`*_is_error`) of a parser built by a legacy method is on
    when the walker is strict (tolerant_parsing False), as it is by default for the parser class"""
    n = 0
    for shim, fnode in sorted(w.functions.items()):
        if not shim.startswith('_pyltxenc2_LatexWalker_') or '.' in shim:
            continue
        for c in iter_own(fnode):
            if not isinstance(c, ast.Call):
                continue
            for k in c.keywords:
                if k.arg and k.arg.endswith('_is_error'):
                    n += 1
                    v = _pval(k.value, {'self.tolerant_parsing': False})
                    ctx.decide('R16r', v is not _UNK and bool(v), w, c,
                               '%s: %s=%s is on in strict mode' % (shim, k.arg, unparse(k.value)),
                               '%s builds its parser with %s=%s, which is off (or undecided) when the walker is strict: '
                               'where the pylatexenc-3 parser reports an error (a lone \\begin or \\end in place of an '
                               'expression) the legacy call returns a node' % (shim, k.arg, short(k.value, 40)),
                               construct='%s: %s' % (shim, k.arg))
    if n == 0:
        ctx.unknown('R16r', w, None, 'no strictness option found in the legacy methods', construct='strictness options')


def _reader_at_running_position(ctx, repo):
    """R16s: in MacroStandardArgsParser.parse_args every sub-parse that is given a token reader gets
    one that stands at the running position: created with pos=<p> in the same iteration, or -- when
    one reader is kept across the slots -- re-positioned to the new <p> on every path that changes <p>"""
    bm = repo.mod(BASE)
    pa = bm.methods('MacroStandardArgsParser').get('parse_args')
    if pa is None:
        raise AnalysisError('anchor vanished: MacroStandardArgsParser.parse_args')
    rets = [r for r in iter_own(pa) if isinstance(r, ast.Return) and isinstance(r.value, ast.Tuple) and len(r.value.elts) == 3]
    pvar = None
    for r in rets:
        e = r.value.elts[2]
        if isinstance(e, ast.BinOp) and isinstance(e.op, ast.Sub) and isinstance(e.left, ast.Name):
            pvar = e.left.id
    loops = [l for l in pa.body if isinstance(l, ast.For)]
    if pvar is None or len(loops) != 1:
        ctx.unknown('R16s', bm, pa, 'running position / argument loop not found', construct='parse_args: reader position')
        return
    lp = loops[0]
    kept = {}
    for st in pa.body:
        if st is lp:
            break
        if isinstance(st, ast.Assign) and len(st.targets) == 1 and isinstance(st.targets[0], ast.Name) and \
                isinstance(st.value, ast.Call) and call_name(st.value) == 'make_token_reader':
            kept[st.targets[0].id] = st
    is_ev = lambda c: call_name(c) in ('make_token_reader', 'move_to_pos_chars', 'parse_content')
    try:
        allc = symex.Walker(want_exits=True, trace=True, is_sink=is_ev).run_block(lp.body)
    except symex.TooManyPaths:
        ctx.unknown('R16s', bm, lp, 'too many paths', construct='parse_args: reader position')
        return
    bad = None
    n_sub = 0

    def kept_positions(env):
        pos_of = dict((r_, pvar) for r_ in kept)      # invariant at the loop head: kept readers stand at p
        for node, sub in [t_ for t_ in env.get('#trace', ()) if isinstance(t_[0], ast.Call)]:
            if call_name(node) == 'move_to_pos_chars' and isinstance(call_recv(node), ast.Name) and \
                    call_recv(node).id in pos_of:
                pos_of[call_recv(node).id] = unparse(sub.args[0]) if sub is not None and sub.args else '?'
        return pos_of
    for cs in allc:
        if cs.kind in ('end', 'continue'):
            if kept:
                endp = cs.env.get(pvar)
                endp_t = unparse(endp) if isinstance(endp, ast.AST) else pvar
                for r_, at_t in kept_positions(cs.env).items():
                    if at_t != endp_t and bad is None:
                        bad = (cs, 'the kept reader %s is left at %s although the running position has become %s'
                               % (r_, at_t, endp_t))
            continue
        if not (isinstance(cs.node, ast.Call) and call_name(cs.node) == 'parse_content'):
            continue
        tr = kwarg(cs.sub, 'token_reader')
        if tr is None:
            continue
        n_sub += 1
        d = symex.resolve(tr, cs.env)
        if isinstance(d, ast.Call) and call_name(d) == 'make_token_reader':
            at = kwarg(d, 'pos')
            at_t = unparse(at) if at is not None else '?'
        elif isinstance(tr, ast.Name) and tr.id.split('@')[0] in kept:
            at_t = kept_positions(cs.env)[tr.id.split('@')[0]]
        else:
            at_t = '?'
        cur = cs.env.get(pvar)
        want_t = unparse(cur) if isinstance(cur, ast.AST) else pvar
        if at_t != want_t and bad is None:
            bad = (cs, 'the reader given to the sub-parse stands at %s while the running position is %s' % (at_t, want_t))
    ctx.decide('R16s', bad is None and n_sub > 0, bm, bad[0].node if bad and bad[0].node is not None else lp,
               'every sub-parse reads from the running position %s (%d sub-parse path(s))' % (pvar, n_sub),
               'MacroStandardArgsParser.parse_args: on the path [%s] %s: the optional argument is looked for at a stale '
               'position (after a star the `[` is missed) and the legacy parser reports other arguments than the '
               'argument-string spelling' % (' & '.join(bad[0].cond_src())[-140:] if bad else '', bad[1] if bad else
                                             'no sub-parse with a token reader found'),
               construct='parse_args: reader position')



def _swallowed_error_is_closing_brace(ctx, repo, w):
    """R16t: the one parse error that get_latex_expression() may swallow (pylatexenc 2 left an
    unexpected closing brace for the caller) is recognised by something that only the
    closing-brace raise site of the expression parser produces"""
    f = w.functions.get('_pyltxenc2_LatexWalker_get_latex_expression')
    em = repo.mod('pylatexenc.latexnodes.parsers._expression')
    if f is None:
        raise AnalysisError('anchor vanished: get_latex_expression')
    sw = [st for t in iter_own(f) if isinstance(t, ast.Try) for h in t.handlers for st in ast.walk(h)
          if isinstance(st, ast.Assign) and isinstance(st.value, ast.Tuple) and all(
              isinstance(e, ast.Constant) and e.value is None for e in st.value.elts)]
    if not sw:
        ctx.unknown('R16t', w, f, 'swallowing branch not found', construct='get_latex_expression: swallowed error')
        return
    # local aliases of the exception's error_type_info
    hname = [h.name for t in iter_own(f) if isinstance(t, ast.Try) for h in t.handlers if h.name]
    alias = set()
    for st in ast.walk(f):
        if isinstance(st, ast.Assign) and len(st.targets) == 1 and isinstance(st.targets[0], ast.Name) and \
                isinstance(st.value, ast.Attribute) and st.value.attr == 'error_type_info':
            alias.add(st.targets[0].id)

    def is_eti(e):
        return (isinstance(e, ast.Attribute) and e.attr == 'error_type_info') or (isinstance(e, ast.Name) and e.id in alias)
    markers, cons_eq, cons_has = set(), {}, set()
    facts_sw = []
    for t, pol in atomic_facts(sw[0]):
        # a boolean local that names the condition: its definition's conjuncts
        if pol and isinstance(t, ast.Name):
            defs_ = [st_.value for st_ in iter_own(f) if isinstance(st_, ast.Assign) and len(st_.targets) == 1
                     and isinstance(st_.targets[0], ast.Name) and st_.targets[0].id == t.id]
            if len(defs_) == 1:
                facts_sw.extend(split_conj(defs_[0], True))
                continue
        facts_sw.append((t, pol))
    for t, pol in facts_sw:
        if not pol:
            continue
        for x in ast.walk(t):
            if isinstance(x, ast.Attribute) and x.attr.startswith('_error_was'):
                markers.add(x.attr)
            if isinstance(x, ast.Call) and isinstance(x.func, ast.Name) and x.func.id in ('getattr', 'hasattr') and \
                    len(x.args) >= 2 and isinstance(x.args[1], ast.Constant) and str(x.args[1].value).startswith('_error_was'):
                markers.add(x.args[1].value)
        if isinstance(t, ast.Compare) and len(t.ops) == 1:
            l, r = t.left, t.comparators[0]
            if isinstance(t.ops[0], ast.Eq) and isinstance(r, ast.Constant):
                if isinstance(l, ast.Call) and call_name(l) == 'get' and call_recv(l) is not None and is_eti(call_recv(l)) \
                        and l.args and isinstance(l.args[0], ast.Constant):
                    cons_eq[l.args[0].value] = r.value
                if isinstance(l, ast.Subscript) and is_eti(l.value) and isinstance(l.slice, ast.Constant):
                    cons_eq[l.slice.value] = r.value
            if isinstance(t.ops[0], ast.In) and isinstance(l, ast.Constant) and is_eti(r):
                cons_has.add(l.value)
    # raise sites of the expression parser
    sites = []
    for q, g in em.functions.items():
        for c in iter_own(g):
            if isinstance(c, ast.Call) and kwarg(c, 'error_type_info') is not None and isinstance(kwarg(c, 'error_type_info'), ast.Dict):
                d = kwarg(c, 'error_type_info')
                info = dict((k.value, (v.value if isinstance(v, ast.Constant) else Ellipsis)) for k, v in zip(d.keys, d.values)
                            if isinstance(k, ast.Constant))
                brace = any(pol and unparse(t) in ("tok.tok == 'brace_close'",) for t, pol in atomic_facts(c))
                sites.append((c, info, brace))
    cons = 'get_latex_expression: swallowed error'
    if markers:
        stores = [(mod_, n_) for mod_ in repo.modules.values() for n_ in ast.walk(mod_.tree)
                  if isinstance(n_, ast.Attribute) and isinstance(n_.ctx, ast.Store) and n_.attr in markers]
        okm = len(stores) == 1 and any(pol and unparse(t) == "tok.tok == 'brace_close'" for t, pol in atomic_facts(stores[0][1]))
        ctx.decide('R16t', okm, w, sw[0], 'recognised by the marker %s, set at the single closing-brace raise site' % sorted(markers),
                   'the marker %s is set at %d site(s), not only where a closing brace is found' % (sorted(markers), len(stores)),
                   construct=cons)
        return
    if cons_eq or cons_has:
        match = [s_ for s_ in sites if all(s_[1].get(k) == v for k, v in cons_eq.items()) and all(k in s_[1] for k in cons_has)]
        other = [s_ for s_ in match if not s_[2]]
        ctx.decide('R16t', bool(match) and not other, w, sw[0],
                   'the tested error_type_info fields single out the closing-brace error',
                   'get_latex_expression() swallows every parse error whose error_type_info has %s%s: %d raise sites of the '
                   'expression parser produce such an error, also one that is not the closing-brace case (line %s: %s) -- a '
                   'math delimiter in place of an expression then yields the empty result where the pylatexenc-3 parser '
                   'fails, and legacy argument parsers go on past it'
                   % (cons_eq, (' and the key(s) %s' % sorted(cons_has)) if cons_has else '', len(match),
                      other[0][0].lineno if other else '?', other[0][1].get('unexpected') if other else '?'), construct=cons)
        return
    ctx.unknown('R16t', w, sw[0], 'how the swallowed error is recognised is not understood', construct=cons)



def shim_state_derivation(ctx, rule, w):
    """a legacy method builds a default parsing state (make_parsing_state) only when the caller
    gave none; every other state it uses is derived from the caller's state with sub_context()"""
    n = 0
    for shim, fnode in sorted(w.functions.items()):
        if not shim.startswith('_pyltxenc2_LatexWalker_') or '.' in shim:
            continue
        if 'parsing_state' not in [a.arg for a in fnode.args.args]:
            continue
        try:
            cases = symex.Walker(is_sink=lambda c: call_name(c) == 'make_parsing_state').run(fnode)
        except symex.TooManyPaths:
            ctx.unknown(rule, w, fnode, 'too many paths', construct=shim + ': state derivation')
            continue
        bad = None
        for cs in cases:
            facts = symex.facts_of(cs.conds)
            if ('parsing_state is None', True) not in facts and bad is None:
                bad = cs
        n += 1
        ctx.decide(rule, bad is None, w, bad.node if bad else fnode,
                   '%s: make_parsing_state() only under `parsing_state is None`' % shim,
                   '%s builds a fresh default state (%s) on the path [%s] although the caller supplied a parsing state: the '
                   'caller\'s settings (math mode, delimiters) are dropped, so the content of `\\sqrt[..]` read inside a '
                   'formula is recorded as text mode' % (shim, short(bad.node, 50) if bad else '',
                                                        ' & '.join(bad.cond_src())[-100:] if bad else ''),
                   construct=shim + ': state derivation')
    return n


def _ctor_default(repo, clsname, kw, depth=0):
    """default value (AST) of constructor parameter `kw` of class `clsname`, following **kwargs up the bases"""
    if depth > 6:
        return None
    c = repo.find_class(clsname)
    if c is None:
        return None
    init = [m for m in c.body if isinstance(m, ast.FunctionDef) and m.name == '__init__']
    if init:
        a = init[0].args
        pos = a.args[1:]
        d = dict(zip([x.arg for x in pos][len(pos) - len(a.defaults):], a.defaults)) if a.defaults else {}
        d.update({x.arg: dv for x, dv in zip(a.kwonlyargs, a.kw_defaults) if dv is not None})
        if kw in d:
            return d[kw]
        if kw in [x.arg for x in pos] or a.kwarg is None:
            return None
    for b in repo.bases_of(c):
        r = _ctor_default(repo, b, kw, depth + 1)
        if r is not None:
            return r
    return None
