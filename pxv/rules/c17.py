# -*- coding: utf-8 -*-
"""C17  A derived parsing state behaves exactly like a freshly built one.

P1 derived tables are functions of fields; P2 cache-key completeness; P3 all
fields travel through sub_context(); P4 both arms of every _finalize_* assign
the same attributes (inherit arm copies like-named attributes of the parent);
P5 every private attribute read from a parsing state elsewhere in the package
is one of the derived tables; P6 fields/derived tables are written only in
set_fields/_finalize_* and never mutated in place; P7 finalize_state runs the
_finalize_* methods in dependency order.  See EXPLANATION for the induction."""
import ast
from .. import symex
from ..core import (AnalysisError, short, unparse, iter_own, call_name, call_recv, kwarg,
                    is_self_attr, atomic_facts, split_conj, parents, enclosing_stmt, always_exits,
                    const_value, const_members)

MOD = 'pylatexenc.latexnodes._parsingstate'
CLS = 'ParsingState'
MUTATORS = {'append', 'extend', 'insert', 'pop', 'remove', 'clear', 'sort', 'reverse',
            'update', 'setdefault', 'popitem', 'add', 'discard'}

EXPLANATION = (
    "Induction on the length of the sub_context() chain.  Let F be the field tuple and D the "
    "derived tables.  P3: sub_context() builds the new object from get_fields() (all of F) "
    "updated with the changed subset K and records (parent, K); it never writes to self.  P1: on "
    "the recompute arm each table in D is a function of the object's own fields and of tables "
    "finalised earlier (P7).  P4: on the inherit arm each table is copied from the like-named "
    "table of the parent.  P2: the inherit arm is taken only if no field the table transitively "
    "depends on is in K; for those fields child and parent agree (P3), and by the induction "
    "hypothesis the parent's table equals the function of the parent's fields, hence of the "
    "child's.  So every table of a derived state equals the table a freshly constructed state "
    "with the same fields computes.  P5/P6: the tokenizer and parsers read nothing else from a "
    "state and nothing mutates a state after construction, so behaviour is identical.")


def _self_attrs_read(node, selfname='self'):
    return {n.attr for n in ast.walk(node)
            if isinstance(n, ast.Attribute) and isinstance(n.ctx, ast.Load)
            and isinstance(n.value, ast.Name) and n.value.id == selfname}


def _self_attrs_stored(node, selfname='self'):
    out = {}
    for n in ast.walk(node):
        if isinstance(n, (ast.Assign, ast.AugAssign)):
            tg = n.targets if isinstance(n, ast.Assign) else [n.target]
            for t in tg:
                for tt in (t.elts if isinstance(t, (ast.Tuple, ast.List)) else [t]):
                    if is_self_attr(tt, None, selfname):
                        out.setdefault(tt.attr, []).append(n)
    return out


def _table_guard_fields(m, fn, t, pol, p_kwargs):
    """the field names tested by a guard operand written over a table of names --
    `not any(f in kwargs for f in TABLE)`, `all(f not in kwargs for f in TABLE)` (generator or list comprehension; TABLE a
    constant tuple at module or class level, or a display) -- or None when `t` is something else"""
    if not (isinstance(t, ast.Call) and isinstance(t.func, ast.Name) and t.func.id in ('any', 'all') and len(t.args) == 1
            and isinstance(t.args[0], (ast.GeneratorExp, ast.ListComp)) and len(t.args[0].generators) == 1):
        return None
    comp = t.args[0]
    g = comp.generators[0]
    if g.ifs or not isinstance(g.target, ast.Name):
        return None
    e = comp.elt
    if not (isinstance(e, ast.Compare) and len(e.ops) == 1 and isinstance(e.left, ast.Name) and e.left.id == g.target.id
            and unparse(e.comparators[0]) == p_kwargs):
        return None
    absent = (t.func.id == 'any' and isinstance(e.ops[0], ast.In) and not pol) or \
        (t.func.id == 'all' and isinstance(e.ops[0], ast.NotIn) and pol)
    if not absent:
        return None
    table = g.iter
    if isinstance(table, ast.Attribute) and isinstance(table.value, ast.Name) and table.value.id in ('self', 'cls', 'ParsingState'):
        cls = [p_ for p_ in parents(fn) if isinstance(p_, ast.ClassDef)]
        defs = [st.value for st in (cls[0].body if cls else []) if isinstance(st, ast.Assign) and len(st.targets) == 1
                and isinstance(st.targets[0], ast.Name) and st.targets[0].id == table.attr]
        if len(defs) != 1:
            return None
        table = defs[0]
    return const_members(m, table)


def run(ctx):
    repo = ctx.repo
    m = repo.mod(MOD)
    cls = m.cls(CLS)
    meths = m.methods(CLS)

    ctx.rule('P1', 'on its recompute path each _finalize_* reads only fields of self and derived '
                   'tables of self (nothing from the parent, the kwargs or module state)', 3)
    ctx.rule('P2', 'cache-key completeness: the fields a _finalize_* transitively depends on are '
                   'all tested with `not in kwargs` by its inherit guard', 3)
    ctx.rule('P3', 'all fields travel: _fields = parameters of set_fields = attributes it assigns; '
                   'sub_context copies get_fields(), applies the changed subset, records exactly '
                   'that subset and never writes to self', 6)
    ctx.rule('P4', 'both arms of every _finalize_* assign the same derived attributes; the inherit '
                   'arm copies the like-named attribute of the parent and requires a parent', 3)
    ctx.rule('P5', 'private attributes read from a parsing state anywhere in the package are '
                   'derived tables assigned in a _finalize_* method', 5)
    ctx.rule('P6', 'fields and derived tables are stored only in set_fields/_finalize_*; no '
                   'in-place mutation of a field of a parsing state anywhere in the package', 2)
    ctx.rule('P7', 'finalize_state calls every _finalize_* method, each after the ones whose '
                   'tables it reads; __init__ calls set_fields then finalize_state', 3)

    # ---- fields
    fields = None
    for st in cls.body:
        if isinstance(st, ast.Assign) and isinstance(st.targets[0], ast.Name) and \
                st.targets[0].id == '_fields' and isinstance(st.value, (ast.Tuple, ast.List)):
            fields = [const_value(e) for e in st.value.elts]
            fields_node = st
    if fields is None:
        raise AnalysisError('anchor vanished: ParsingState._fields')
    sf = meths.get('set_fields')
    if sf is None:
        raise AnalysisError('anchor vanished: ParsingState.set_fields')
    sf_params = [a.arg for a in sf.args.args[1:]] + [a.arg for a in sf.args.kwonlyargs]
    sf_stores = _self_attrs_stored(sf)
    ctx.decide('P3', set(fields) == set(sf_params), m, fields_node,
               '_fields equals the parameter list of set_fields (%d fields)' % len(fields),
               '_fields and the parameters of set_fields differ: %s'
               % sorted(set(fields) ^ set(sf_params)),
               construct='_fields vs set_fields parameters')
    ctx.decide('P3', set(fields) <= set(sf_stores), m, sf,
               'set_fields assigns every field',
               'set_fields does not assign field(s) %s' % sorted(set(fields) - set(sf_stores)),
               construct='set_fields assigns all fields')
    # each field is assigned from its own parameter (possibly with a default expression)
    for f in fields:
        for st in sf_stores.get(f, []):
            src = {n.id for n in ast.walk(st.value) if isinstance(n, ast.Name)} | \
                _self_attrs_read(st.value)
            if isinstance(st.value, ast.Constant) and st.value.value is None:
                # normalisation `self.math_mode_delimiter = None` under a guard
                continue
            ctx.decide('P3', f in src, m, st, 'field assigned from its own parameter',
                       'field %s is assigned from %s, not from its own parameter' % (f, sorted(src)),
                       construct='set_fields: ' + short(st), trivial=True)

    # ---- finalize methods
    fins = {n: f for n, f in meths.items() if n.startswith('_finalize_state_')}
    if len(fins) < 3:
        raise AnalysisError('fewer than 3 _finalize_state_* methods found (%s)' % sorted(fins))
    derived_by = {}     # derived attr -> method
    info = {}
    for name, fn in sorted(fins.items()):
        if len(fn.args.args) < 3:
            raise AnalysisError('%s does not take (self, parent, kwargs)' % name)
        p_parent, p_kwargs = fn.args.args[1].arg, fn.args.args[2].arg
        guard = None
        for st in fn.body:
            # `if <key unchanged>: <inherit>; return` followed by the recompute code, or the same
            # decision written as if/else
            if isinstance(st, ast.If) and ((always_exits(st.body) and not st.orelse) or (
                    st.orelse and st is fn.body[-1] and any(
                        isinstance(t_, ast.Compare) and isinstance(t_.ops[0], ast.NotIn)
                        for t_, _p in split_conj(st.test, True)))):
                guard = st
                break
        if guard is None:
            ctx.unknown('P4', m, fn, 'no inherit guard of the form `if <cond>: ...; return`',
                        construct=name + ': inherit guard')
            continue
        conj = split_conj(guard.test, True)
        key_fields = set()
        has_parent = False
        other = []
        for t, pol in conj:
            if pol and isinstance(t, ast.Compare) and len(t.ops) == 1:
                if isinstance(t.ops[0], ast.NotIn) and isinstance(t.left, ast.Constant) and \
                        unparse(t.comparators[0]) == p_kwargs:
                    key_fields.add(t.left.value)
                    continue
                if isinstance(t.ops[0], ast.IsNot) and unparse(t.left) == p_parent and \
                        unparse(t.comparators[0]) == 'None':
                    has_parent = True
                    continue
            tf = _table_guard_fields(m, fn, t, pol, p_kwargs)
            if tf is not None:
                key_fields |= set(tf)
                continue
            other.append((t, pol))
        inherit_stores = _self_attrs_stored(ast.Module(body=guard.body, type_ignores=[]))
        rest = list(guard.orelse) + [s for s in fn.body if s is not guard and s.lineno > guard.lineno]
        rest_mod = ast.Module(body=rest, type_ignores=[])
        recompute_stores = _self_attrs_stored(rest_mod)
        for d in recompute_stores:
            derived_by[d] = name
        info[name] = dict(fn=fn, guard=guard, key=key_fields, has_parent=has_parent, other=other,
                          inherit=inherit_stores, recompute=recompute_stores, rest=rest_mod,
                          parent=p_parent, kwargs=p_kwargs)

    derived = set(derived_by)
    ctx.analysed['fields'] = fields
    ctx.analysed['derived_tables'] = sorted(derived)

    for name, d in sorted(info.items()):
        fn, guard = d['fn'], d['guard']
        # P4
        same = set(d['inherit']) == set(d['recompute'])
        ctx.decide('P4', same, m, guard,
                   'inherit and recompute arms both assign %s' % sorted(d['recompute']),
                   'arms assign different attributes: inherit %s, recompute %s: a derived state '
                   'keeps a stale or missing table' % (sorted(d['inherit']), sorted(d['recompute'])),
                   construct=name + ': attribute sets of both arms')
        for attr, sts in sorted(d['inherit'].items()):
            for st in sts:
                ok = isinstance(st.value, ast.Attribute) and unparse(st.value.value) == d['parent'] \
                    and st.value.attr == attr
                ctx.decide('P4', ok, m, st, 'copies the like-named table of the parent',
                           'inherit arm assigns self.%s from %s, not from %s.%s'
                           % (attr, short(st.value), d['parent'], attr),
                           construct=name + ': ' + short(st))
        ctx.decide('P4', d['has_parent'] and not d['other'], m, guard,
                   'inherit only with a parent and only on `not in kwargs` tests',
                   'inherit guard %s: %s' % (
                       'does not require a parent' if not d['has_parent'] else 'has extra conditions',
                       [short(t) for t, _ in d['other']]),
                   construct=name + ': guard shape ' + short(guard.test))
        # every recompute path assigns each derived attr: branches (if/elif/else) all assign
        for attr in sorted(d['recompute']):
            if not _assigned_on_all_paths(d['rest'].body, attr):
                ctx.refuted('P4', m, fn, 'recompute arm leaves self.%s unassigned on some path'
                            % attr, construct=name + ': all paths assign ' + attr)
        # P1
        reads = _self_attrs_read(d['rest'])
        bad = sorted(r for r in reads if r not in fields and r not in derived)
        foreign = sorted({n.id for n in ast.walk(d['rest']) if isinstance(n, ast.Name)
                          and n.id in (d['parent'], d['kwargs'])})
        ctx.decide('P1', not bad and not foreign, m, fn,
                   'recompute path reads self.{%s}' % ', '.join(sorted(reads)),
                   'recompute path reads %s: the table is not a function of the fields'
                   % (bad + foreign), construct=name + ': reads of the recompute path')
        d['reads'] = reads

    # P2 transitive deps
    def deps(name, seen=()):
        out = set()
        for r in info[name].get('reads', ()):
            if r in fields:
                out.add(r)
            elif r in derived_by and derived_by[r] != name and derived_by[r] not in seen \
                    and derived_by[r] in info:
                out |= deps(derived_by[r], seen + (name,))
        return out

    # set_fields cross-field normalisation: a field whose stored value depends on another
    # parameter (math_mode_delimiter is reset when not in_math_mode)
    sf_cross = {}
    for f in fields:
        for st in sf_stores.get(f, []):
            cond = set()
            for t, pol in atomic_facts(st):
                cond |= _self_attrs_read(t) | {n.id for n in ast.walk(t) if isinstance(n, ast.Name)}
            sf_cross.setdefault(f, set()).update(c for c in cond if c in fields and c != f)
    for name, d in sorted(info.items()):
        if 'reads' not in d:
            continue
        need = deps(name)
        for f in list(need):
            need |= sf_cross.get(f, set())
        missing = sorted(need - d['key'])
        extra = sorted(d['key'] - set(fields))
        ctx.decide('P2', not missing and not extra, m, d['guard'],
                   'guard tests %s ⊇ dependencies %s' % (sorted(d['key']), sorted(need)),
                   ('inherit guard tests %s but the table depends (transitively) on %s; changing '
                    '%s through sub_context() keeps the parent\'s stale table, a fresh state '
                    'recomputes it' % (sorted(d['key']), sorted(need), missing)) if missing else
                   'guard tests unknown field name(s) %s' % extra,
                   construct=name + ': cache key ' + short(d['guard'].test),
                   facts='deps=%s key=%s' % (sorted(need), sorted(d['key'])))

    # ---- P7
    fs = meths.get('finalize_state')
    init = meths.get('__init__')
    if fs is None or init is None:
        raise AnalysisError('anchor vanished: ParsingState.finalize_state/__init__')
    order = []
    for st in fs.body:
        if isinstance(st, ast.Expr) and isinstance(st.value, ast.Call) and \
                is_self_attr(st.value.func) and st.value.func.attr in fins:
            order.append(st.value.func.attr)
            a = [unparse(x) for x in st.value.args]
            # arguments are the unpacked (parent, kwargs) of _parent_parsing_state_info
    ctx.decide('P7', set(order) == set(fins), m, fs,
               'finalize_state calls %s unconditionally' % order,
               'finalize_state does not call %s unconditionally' % sorted(set(fins) - set(order)),
               construct='finalize_state: calls all _finalize_state_*')
    for name, d in sorted(info.items()):
        if 'reads' not in d or name not in order:
            continue
        for r in sorted(d['reads']):
            prod = derived_by.get(r)
            if prod and prod != name and prod in order:
                ctx.decide('P7', order.index(prod) < order.index(name), m, fs,
                           '%s runs before %s (which reads self.%s)' % (prod, name, r),
                           '%s reads self.%s before %s has computed it' % (name, r, prod),
                           construct='finalize_state order: %s -> %s' % (prod, name))
    # the pair handed to the finalizers is the recorded (parent, changed kwargs)
    unpack = [s for s in fs.body if isinstance(s, ast.Assign)
              and is_self_attr(s.value, '_parent_parsing_state_info')]
    ctx.decide('P7', bool(unpack), m, fs, 'parent/kwargs come from _parent_parsing_state_info',
               'finalize_state does not take (parent, kwargs) from _parent_parsing_state_info',
               construct='finalize_state: source of (parent, kwargs)')
    calls = [unparse(s.value.func) for s in init.body if isinstance(s, ast.Expr)
             and isinstance(s.value, ast.Call)]
    ok_init = 'self.set_fields' in calls and 'self.finalize_state' in calls and \
        calls.index('self.set_fields') < calls.index('self.finalize_state')
    ctx.decide('P7', ok_init, m, init, '__init__: set_fields(**kwargs) then finalize_state()',
               '__init__ does not call set_fields before finalize_state', construct='__init__ order')

    # ---- P3 sub_context
    sc = meths.get('sub_context')
    gf = meths.get('get_fields')
    if sc is None or gf is None:
        raise AnalysisError('anchor vanished: ParsingState.sub_context/get_fields')
    ctx.decide('P3', not _self_attrs_stored(sc), m, sc, 'sub_context never stores to self',
               'sub_context writes to the state it is called on: %s'
               % sorted(_self_attrs_stored(sc)), construct='sub_context: stores to self')
    gf_ok = any(isinstance(n, ast.Attribute) and is_self_attr(n, '_fields') for n in ast.walk(gf)) \
        and any(isinstance(n, ast.Call) and call_name(n) == 'getattr' for n in ast.walk(gf))
    ctx.decide('P3', gf_ok, m, gf, 'get_fields() reads every name of _fields with getattr',
               'get_fields() does not enumerate self._fields', construct='get_fields shape')
    _check_sub_context(ctx, m, sc)

    # ---- P5/P6 over the package
    n_priv = 0
    field_like = set(fields)
    for mod in repo.modules.values():
        for n in ast.walk(mod.tree):
            if isinstance(n, ast.Attribute) and isinstance(n.value, (ast.Name, ast.Attribute)):
                recv = unparse(n.value)
                if recv.endswith('parsing_state') or recv in ('ps', 'expr_parsing_state') or \
                        (mod.name == MOD and recv in ('self', 'parent') and _in_class(n, cls)):
                    if isinstance(n.ctx, ast.Load) and n.attr.startswith('_') and \
                            not n.attr.startswith('__') and (n.attr.startswith('_math')
                                                             or n.attr.startswith('_latex_group')):
                        n_priv += 1
                        ctx.decide('P5', n.attr in derived, mod, n,
                                   'reads derived table ' + n.attr,
                                   'reads %s.%s which no _finalize_state_* method assigns '
                                   '(derived tables: %s)' % (recv, n.attr, sorted(derived)),
                                   construct='read %s.%s' % (recv, n.attr), trivial=True)
                    if isinstance(n.ctx, ast.Store) and (n.attr in field_like or n.attr in derived):
                        fnode = [p for p in parents(n) if isinstance(p, ast.FunctionDef)]
                        fname = fnode[0].name if fnode else '<module>'
                        okw = mod.name == MOD and recv == 'self' and \
                            (fname == 'set_fields' or fname.startswith('_finalize_state_'))
                        if recv in ('self',) and mod.name != MOD:
                            continue   # another class's own attribute of the same name
                        ctx.decide('P6', okw, mod, enclosing_stmt(n),
                                   'store inside set_fields/_finalize_state_*',
                                   'field/derived table %s.%s is written outside '
                                   'set_fields/_finalize_state_* (in %s): an existing state '
                                   'changes under its users' % (recv, n.attr, fname),
                                   construct='store %s.%s in %s' % (recv, n.attr, fname))
            if isinstance(n, ast.Call) and call_name(n) in MUTATORS and call_recv(n) is not None:
                r = call_recv(n)
                if isinstance(r, ast.Attribute) and (r.attr in field_like or r.attr in derived):
                    recv = unparse(r.value)
                    if recv.endswith('parsing_state') or (mod.name == MOD and recv in ('self', 'parent')
                                                          and _in_class(n, cls)):
                        ctx.refuted('P6', mod, enclosing_stmt(n),
                                    'in-place %s on %s.%s mutates a (shared) parsing state'
                                    % (call_name(n), recv, r.attr),
                                    construct='mutate %s.%s' % (recv, r.attr))
    ctx.analysed['private_reads_checked'] = n_priv
    # positive instance so that P6 never passes vacuously: the stores inside set_fields
    ctx.holds('P6', m, sf, '%d field stores, all inside set_fields' % sum(
        len(v) for k, v in sf_stores.items() if k in fields), construct='set_fields stores')

    # ---- P9 (C11 R11b): the reader keeps no memory of earlier peeks
    ctx.rule('P9', 'peeking leaves the token reader unchanged: nothing remembered from a peek (keyed by the identity of a '
                   'state that may since have been freed) can answer for another, equal-looking derived state (C11 R11b)', 4)
    from . import c11 as _c11
    from .. import core as _core
    _core.run_proxied(ctx, _c11, 'P9', ('R11b',))
    # ---- P8: the changed-field filter compares with ==
    ctx.rule('P8', 'the filter that decides which requested fields changed (_safe_eq) says "equal" only for values '
                   'that are == (or both None): no coarser comparison drops a requested change', 1)
    se = m.functions.get('_safe_eq')
    if se is None:
        ctx.unknown('P8', m, None, '_safe_eq not found', construct='_safe_eq')
    else:
        a_, b_ = [x.arg for x in se.args.args][:2]
        allowed = {'%s is None' % a_, '%s is None' % b_, '%s == %s' % (a_, b_), '%s == %s' % (b_, a_),
                   '%s is %s' % (a_, b_), '%s is %s' % (b_, a_)}
        try:
            rcs = [c for c in symex.Walker(want_returns=True).run(se) if c.kind == 'return']
        except symex.TooManyPaths:
            rcs = []
        bad = None
        for c in rcs:
            v = c.sub
            if isinstance(v, ast.Constant) and v.value is False:
                continue
            # a path that can answer "equal": every test it rests on is an identity / == test of the two values
            tests = [(t, p_) for t, p_ in c.conds] + ([(v, True)] if not isinstance(v, ast.Constant) else [])
            for t, p_ in tests:
                for leaf in ast.walk(t):
                    if isinstance(leaf, (ast.Compare, ast.Call)) and not any(
                            isinstance(q_, (ast.Compare, ast.Call)) and q_ is not leaf for q_ in ast.walk(leaf)):
                        txt = unparse(leaf)
                        pos_ = p_ if leaf is t else True
                        if txt not in allowed and bad is None and not (isinstance(leaf, ast.Compare) and not pos_):
                            bad = (c, txt)
        ctx.decide('P8', bool(rcs) and bad is None, m, se, '_safe_eq answers from `is None` and `==` tests only',
                   '_safe_eq can answer "equal" on the strength of `%s`: values that differ but pass that test (strings '
                   'with the same set of characters, lists in another order) are dropped from the changed fields by '
                   'sub_context(), so the derived state keeps the old value' % (bad[1] if bad else ''),
                   construct='_safe_eq')

    ctx.assume('user subclasses of ParsingState and values that compare equal but behave '
               'differently (_safe_eq uses ==) are outside the rule')
    return 'proof', EXPLANATION


def _in_class(node, cls):
    return any(p is cls for p in parents(node))


def _assigned_on_all_paths(stmts, attr):
    """self.<attr> is assigned on every path through the statement list."""
    for st in stmts:
        if isinstance(st, ast.Assign):
            for t in st.targets:
                for tt in (t.elts if isinstance(t, (ast.Tuple, ast.List)) else [t]):
                    if is_self_attr(tt, attr):
                        return True
        elif isinstance(st, ast.If):
            if st.orelse and _assigned_on_all_paths(st.body, attr) and \
                    _assigned_on_all_paths(st.orelse, attr):
                return True
    return False


def _check_sub_context(ctx, m, sc):
    src = {}
    for st in sc.body:
        if isinstance(st, ast.Assign) and isinstance(st.targets[0], ast.Name):
            src[st.targets[0].id] = st
    kwname = sc.args.kwarg.arg if sc.args.kwarg else None
    if kwname is None:
        ctx.unknown('P3', m, sc, 'sub_context does not take **kwargs')
        return
    # attrs = self.get_fields()
    attrs = [n for n, st in src.items() if isinstance(st.value, ast.Call)
             and unparse(st.value.func) == 'self.get_fields']
    if not attrs:
        ctx.refuted('P3', m, sc, 'sub_context does not start from self.get_fields(): unchanged '
                                 'fields are lost', construct='sub_context: base fields')
        return
    attrs = attrs[0]
    ctx.holds('P3', m, src[attrs], 'starts from a copy of all fields', construct='sub_context: '
              + short(src[attrs]))
    # changed-subset: a dict comprehension over kwargs.items(), or `X = {}` filled by one loop over
    # kwargs.items() that stores X[k] = v exactly on the paths where v differs from attrs[k]
    changed = None
    loop_stores = []

    def _is_diff_test(t, k, val, pol):
        """(t, pol) says: the new value differs from the current one"""
        if isinstance(t, ast.UnaryOp) and isinstance(t.op, ast.Not):
            return _is_diff_test(t.operand, k, val, not pol)
        pair = {val, '%s[%s]' % (attrs, k)}
        if isinstance(t, ast.Call) and len(t.args) == 2 and {unparse(a) for a in t.args} == pair:
            return not pol           # _safe_eq(...) false
        if isinstance(t, ast.Compare) and len(t.ops) == 1 and \
                {unparse(t.left), unparse(t.comparators[0])} == pair:
            if isinstance(t.ops[0], ast.NotEq):
                return pol
            if isinstance(t.ops[0], ast.Eq):
                return not pol
        return None
    for n, st in src.items():
        v = st.value
        if isinstance(v, ast.DictComp) and len(v.generators) == 1:
            g = v.generators[0]
            if unparse(g.iter) == kwname + '.items()':
                changed = n
                k, val = [e.id for e in g.target.elts] if isinstance(g.target, ast.Tuple) else (None, None)
                ok = unparse(v.key) == k and unparse(v.value) == val
                filt_ok = all(_is_diff_test(f, k, val, True) for f in g.ifs) and len(g.ifs) == 1
                ctx.decide('P3', ok and filt_ok, m, st,
                           'changed subset = the given keys whose value differs from the current one',
                           'the recorded changed-subset drops or alters keys (%s): a changed field '
                           'is not seen by the inherit guards' % short(v),
                           construct='sub_context: changed subset ' + short(v))
    if changed is None:
        pass
        for lp in [l for l in sc.body if isinstance(l, ast.For) and unparse(l.iter) == kwname + '.items()'
                   and isinstance(l.target, ast.Tuple) and len(l.target.elts) == 2]:
            k, val = [unparse(e) for e in lp.target.elts]
            tgt = [x for x in ast.walk(lp) if isinstance(x, ast.Assign) and isinstance(x.targets[0], ast.Subscript)
                   and isinstance(x.targets[0].value, ast.Name)]
            if len(tgt) != 1:
                continue
            X = tgt[0].targets[0].value.id
            init_ok = X in src and ((isinstance(src[X].value, ast.Dict) and not src[X].value.keys) or
                                    (isinstance(src[X].value, ast.Call) and call_name(src[X].value) == 'dict'
                                     and not src[X].value.args and not src[X].value.keywords))
            cases = symex.Walker(want_exits=True, stmt_sink=lambda s_: s_ is tgt[0]).run_block(lp.body)
            ok = init_ok and unparse(tgt[0].targets[0].slice) == k and unparse(tgt[0].value) == val
            for cs in cases:
                if cs.kind in ('break', 'return', 'raise'):
                    ok = False
                    continue
                stored = bool(cs.env.get('#trace'))
                differs = None
                for t_, pol in cs.conds:
                    for a, ap in symex._atoms(t_, pol):
                        d_ = _is_diff_test(a, k, val, ap)
                        if d_ is not None:
                            differs = d_
                if differs is None or differs != stored:
                    ok = False
            changed = X
            loop_stores.append(tgt[0].targets[0])
            ctx.decide('P3', ok, m, lp,
                       'changed subset = the given keys whose value differs from the current one (loop form)',
                       'the recorded changed-subset drops or alters keys (loop %s): a changed field is '
                       'not seen by the inherit guards' % short(lp, 60),
                       construct='sub_context: changed subset loop')
    rec_name = changed or kwname
    upd = [s for s in sc.body if isinstance(s, ast.Expr) and isinstance(s.value, ast.Call)
           and unparse(s.value.func) == attrs + '.update']
    ok_upd = bool(upd) and unparse(upd[0].value.args[0]) in (rec_name, kwname)
    ctx.decide('P3', ok_upd, m, upd[0] if upd else sc, 'new values applied over the copied fields',
               'the given field values are not applied to the copied fields',
               construct='sub_context: attrs.update')
    # nothing else writes the field dictionaries: only the keys the caller passed change
    extra = []
    for n in ast.walk(sc):
        if isinstance(n, ast.Subscript) and isinstance(n.ctx, (ast.Store, ast.Del)) and \
                isinstance(n.value, ast.Name) and n.value.id in (attrs, rec_name, kwname) and \
                not any(n is x for x in loop_stores):
            extra.append(n)
        if isinstance(n, ast.Call) and call_name(n) in ('update', 'pop', 'setdefault', 'clear', 'popitem') \
                and isinstance(call_recv(n), ast.Name) and call_recv(n).id in (attrs, rec_name, kwname) \
                and not (upd and n is upd[0].value):
            extra.append(n)
    ctx.decide('P3', not extra, m, extra[0] if extra else sc,
               'the copied fields are changed by the caller\'s keys only',
               'sub_context writes %s on its own: a field the caller did not pass is changed (or a '
               'passed one dropped), so the derived state differs from a fresh state built with the '
               'same values' % [short(enclosing_stmt(x) or x, 70) for x in extra][:2],
               construct='sub_context: no further writes to the field dictionaries')
    # constructor call
    ctor = None
    for n in ast.walk(sc):
        if isinstance(n, ast.Call) and (unparse(n.func) in ('self.__class__', 'type(self)',
                                                            'ParsingState')):
            ctor = n
    if ctor is None:
        ctx.unknown('P3', m, sc, 'constructor call not found')
        return
    star = [k for k in ctor.keywords if k.arg is None]
    ok_star = len(star) == 1 and unparse(star[0].value) == attrs
    info = kwarg(ctor, '_parent_parsing_state_info')
    ok_info = isinstance(info, ast.Tuple) and len(info.elts) == 2 and \
        unparse(info.elts[0]) == 'self' and unparse(info.elts[1]) == rec_name
    ctx.decide('P3', ok_star and ok_info, m, ctor,
               'new state built from all fields, records (self, changed subset)',
               'sub_context constructs the new state with %s' % short(ctor),
               construct='sub_context: constructor ' + short(ctor))
