# -*- coding: utf-8 -*-
"""C18  Node-list splitting and key-value parsing are order-preserving partitions.

R18a slice/position agreement in split_at_chars; R18b only top-level chars nodes are
searched; R18c every value stored by parse_keyval_content is a node list (sibling
branches agree); R18d the query functions never mutate existing node lists in
place; R18e every separator path of split_at_chars is accounted for in the
max_split bound; R18f parse_keyval_content = split at commas, then at the first
equals sign (max_split=1) of each part."""
import ast
import re
from .. import symex
from ..core import (AnalysisError, short, unparse, iter_own, call_name, call_recv, kwarg,
                    is_self_attr, atomic_facts, parents, enclosing_stmt, enclosing_func)

NODES = 'pylatexenc.latexnodes.nodes'
MUT = {'append', 'extend', 'insert', 'pop', 'remove', 'clear', 'sort', 'reverse'}


def run(ctx):
    repo = ctx.repo
    m = repo.mod(NODES)
    meths = m.methods('LatexNodeList')
    ctx.rule('R18a', 'split_at_chars: a chunk n.chars[a:b] becomes a chars node positioned at '
                     '(n.pos + a, n.pos + b) with the same bound expressions; a part ends at the '
                     'start of its separator', 5)
    ctx.rule('R18b', 'separators are searched only in top-level LatexCharsNode children '
                     '(no descent into child nodes)', 1)
    ctx.rule('R18c', 'every value stored in the key-value result is a LatexNodeList '
                     '(sibling policy branches agree on the result type)', 3)
    ctx.rule('R18d', 'splitting / filtering / key-value parsing never mutate an existing node list '
                     'in place (no +=, append, ... on .nodelist or an alias of it)', 4)
    ctx.rule('R18e', 'the max_split bound is maintained on every separator path (counted by the '
                     'number of collected parts, or by a counter incremented on every path that '
                     'consumes a separator)', 1)
    ctx.rule('R18g', 'delimiter comparisons between an argument group and its inner group compare like with '
                     'like (opening with opening)', 1)
    ctx.rule('R18h', 'a key-value value loses its braces only when it consists of exactly one brace group', 1)
    ctx.rule('R18q', 'the braces are stripped from the pair\'s own value (the part after the equals sign), before the '
                     'repeated-key policy combines it with an earlier value and before the default is substituted', 1)
    ctx.rule('R18i', 'a regular-expression separator is searched with search(text, pos) on the whole text (left '
                     'context preserved), as the first reachable way', 1)
    ctx.rule('R18f', 'parse_keyval_content splits at the comma separator, then each part at the '
                     'equals separator with max_split=1; policies first/last/concatenate/error all '
                     'have a branch', 4)

    sac = meths.get('split_at_chars')
    pk = meths.get('parse_keyval_content')
    san = meths.get('split_at_node')
    if sac is None or pk is None or san is None:
        raise AnalysisError('anchor vanished: LatexNodeList.split_at_chars/parse_keyval_content/'
                            'split_at_node')

    # ---------------------------------------------------------------- R18a
    inner = {n.name: n for n in ast.walk(sac) if isinstance(n, ast.FunctionDef) and n is not sac}
    c2n = inner.get('chars_to_node')
    if c2n is None:
        ctx.unknown('R18a', m, sac, 'helper chars_to_node not found')
    else:
        ps = [a.arg for a in c2n.args.args]
        call = [c for c in ast.walk(c2n) if isinstance(c, ast.Call) and call_name(c) == 'make_node']
        ok = False
        if call and len(ps) == 4:
            kp, kpe, kc = kwarg(call[0], 'pos'), kwarg(call[0], 'pos_end'), kwarg(call[0], 'chars')
            ok = kp is not None and unparse(kp) == '%s.pos + %s' % (ps[1], ps[2]) and \
                kpe is not None and unparse(kpe) == '%s.pos + %s' % (ps[1], ps[3]) and \
                kc is not None and unparse(kc) == ps[0]
        ctx.decide('R18a', ok, m, c2n, 'chars_to_node(chars, n, a, b) -> pos=n.pos+a, pos_end=n.pos+b',
                   'chars_to_node does not place the chunk at (n.pos + rel_pos, n.pos + rel_pos_end)',
                   construct='chars_to_node')
        # each call site: p = n.chars[a:b]; chars_to_node(p, n, a, b)
        for c in [x for x in ast.walk(sac) if isinstance(x, ast.Call) and call_name(x) == 'chars_to_node']:
            if len(c.args) != 4:
                ctx.unknown('R18a', m, c, 'call shape')
                continue
            pv, nv, a, b = c.args
            # reaching definition of p: nearest preceding assignment in the same function
            defs = [s for s in ast.walk(sac) if isinstance(s, ast.Assign) and
                    unparse(s.targets[0]) == unparse(pv) and s.lineno < c.lineno]
            if not defs:
                ctx.unknown('R18a', m, c, 'no definition of the chunk')
                continue
            d = max(defs, key=lambda s: s.lineno)
            v = d.value
            ok = isinstance(v, ast.Subscript) and isinstance(v.slice, ast.Slice) and \
                unparse(v.value) == unparse(nv) + '.chars'
            if ok:
                lo = unparse(v.slice.lower) if v.slice.lower else '0'
                hi = unparse(v.slice.upper) if v.slice.upper else 'len(%s.chars)' % unparse(nv)
                ok = lo == unparse(a) and hi == unparse(b)
            ctx.decide('R18a', ok, m, c,
                       'chunk %s positioned with its own slice bounds' % short(v),
                       'chunk %s is positioned with (%s, %s): the node\'s position does not match '
                       'the text it carries' % (short(v), short(a), short(b)),
                       construct='chars_to_node call: %s <- %s' % (short(c), short(v)))
        # flush at separator start
        for c in [x for x in ast.walk(sac) if isinstance(x, ast.Call) and call_name(x) == 'flush_nodes']:
            pe = kwarg(c, 'pos_end')
            if pe is None:
                continue
            txt = unparse(pe)
            inloop = any(isinstance(p, ast.While) for p in parents(c))
            if inloop:
                ok = txt.replace(' ', '') in ('n.pos+next_sep_idx',)
                ctx.decide('R18a', ok, m, c, 'part ends where its separator starts',
                           'a part is closed at %s, not at the start of the separator' % txt,
                           construct='flush_nodes: ' + short(c))
            else:
                ctx.decide('R18a', txt == 'self.pos_end', m, c, 'last part ends at the list end',
                           'the last part is closed at %s, not at the end of the list' % txt,
                           construct='final flush_nodes: ' + short(c))
    # ---------------------------------------------------------------- R18b
    loops = [l for l in iter_own(sac) if isinstance(l, ast.For) and is_self_attr(l.iter, 'nodelist')]
    ok = False
    if len(loops) == 1:
        lv = loops[0].target.id
        searches = [c for c in ast.walk(loops[0]) if isinstance(c, ast.Call)
                    and call_name(c) == 'get_next_split']
        ok = bool(searches) and all(
            any(pol and isinstance(t, ast.Call) and call_name(t) == 'isNodeType' and
                unparse(call_recv(t)) == lv and 'LatexCharsNode' in unparse(t.args[0])
                for t, pol in atomic_facts(c)) and unparse(c.args[0]) == lv + '.chars'
            for c in searches)
        rec = [c for c in ast.walk(loops[0]) if isinstance(c, ast.Call)
               and call_name(c) in ('split_at_chars', 'split_at_node')]
        ok = ok and not rec
    ctx.decide('R18b', ok, m, loops[0] if loops else sac,
               'search only inside `if n.isNodeType(LatexCharsNode)` on n.chars, no recursion',
               'split_at_chars searches separators outside top-level chars nodes',
               construct='split_at_chars: search site')

    # ---------------------------------------------------------------- R18c + R18f
    stores = [s for s in iter_own(pk) if isinstance(s, ast.Assign) and
              isinstance(s.targets[0], ast.Subscript) and unparse(s.targets[0].value) == 'result_keyvals']
    valvar = unparse(stores[0].value) if stores else 'value_nl'
    # names holding `result_keyvals.get(key[, None])`
    getvars = {unparse(x.targets[0]) for x in iter_own(pk) if isinstance(x, ast.Assign)
               and isinstance(x.value, ast.Call) and call_name(x.value) == 'get'
               and call_recv(x.value) is not None and unparse(call_recv(x.value)) == 'result_keyvals'}

    def _repeat_fact(t, pol):
        tx = unparse(t)
        if pol and 'in result_keyvals' in tx and 'not in' not in tx:
            return 'membership'
        if (not pol) and 'not in result_keyvals' in tx:
            return 'membership'
        for g in getvars:
            if (pol and tx == g + ' is not None') or ((not pol) and tx == g + ' is None'):
                return 'membership'
            if (pol and tx == g) or ((not pol) and tx == 'not ' + g):
                return 'truthiness:' + g
        return None
    # the repeated-key dispatch is entered by a presence test, not by the truth value of what is stored
    disp = [c_ for c_ in iter_own(pk) if isinstance(c_, ast.Compare)
            and unparse(c_.left) == 'repeated_key_aggregate_action']
    if disp:
        kinds = [k_ for k_ in (_repeat_fact(t, pol) for t, pol in atomic_facts(disp[0])) if k_]
        if not kinds:
            ctx.unknown('R18c', m, disp[0], 'guard of the repeated-key dispatch not recognised',
                        construct='keyval: repeated-key test')
        else:
            bad = [k_ for k_ in kinds if k_.startswith('truthiness')]
            ctx.decide('R18c', not bad, m, disp[0], 'a key counts as repeated when it is present in the result',
                       'a key counts as repeated only when the value stored for it is truthy (%s): an '
                       'empty value (k={}) is an empty, falsy LatexNodeList, so a second k=... is treated '
                       'as new -- "first" returns the later value, "error" does not raise, a custom policy '
                       'is not called' % (bad[0].split(':')[1] if bad else ''), construct='keyval: repeated-key test')
    for s in [x for x in iter_own(pk) if isinstance(x, ast.Assign) and unparse(x.targets[0]) == valvar]:
        facts = atomic_facts(s)
        in_repeat = any(_repeat_fact(t, pol) for t, pol in facts)
        if not in_repeat:
            continue
        v = s.value
        kind = _value_kind(v, getvars)
        ctx.decide('R18c', kind in ('nodelist', 'callable'), m, s,
                   'stores a node list (%s)' % kind,
                   'the repeated-key branch stores %s, a %s, where the other branches store a '
                   'LatexNodeList: a later repetition fails with AttributeError / callers get a '
                   'plain list' % (short(v), kind), construct='keyval branch: ' + short(s, 80))
    wraps = [c for c in iter_own(pk) if isinstance(c, ast.Call) and call_name(c) == 'isinstance'
             and 'LatexNodeList' in unparse(c)]
    ctx.decide('R18c', bool(wraps), m, pk, 'values are wrapped into a LatexNodeList before use',
               'parse_keyval_content no longer wraps plain values into a LatexNodeList',
               construct='keyval: wrap into LatexNodeList')
    pol = set()
    for n in iter_own(pk):
        if isinstance(n, ast.Compare) and unparse(n.left) == 'repeated_key_aggregate_action' and \
                isinstance(n.comparators[0], ast.Constant):
            pol.add(n.comparators[0].value)
    ctx.decide('R18f', pol >= {'concatenate', 'error', 'first', 'last'}, m, pk,
               'policies %s have a branch' % sorted(pol),
               'policy branch(es) missing: %s' % sorted({'concatenate', 'error', 'first', 'last'} - pol),
               construct='keyval: policy branches')
    # 'last' keeps the new value, 'first' keeps the stored one, 'error' raises
    for s in [x for x in iter_own(pk) if isinstance(x, ast.If)]:
        pass
    splits = [c for c in iter_own(pk) if isinstance(c, ast.Call) and call_name(c) == 'split_at_chars']
    by_recv = {unparse(call_recv(c)): c for c in splits}
    c1 = by_recv.get('self')
    ok1 = c1 is not None and c1.args and unparse(c1.args[0]) == 'comma_sep_chars' and \
        kwarg(c1, 'max_split') is None
    ctx.decide('R18f', bool(ok1), m, c1 or pk, 'first split: self.split_at_chars(comma_sep_chars)',
               'the list is not first split (unboundedly) at the comma separator',
               construct='keyval: comma split')
    c2 = [c for r, c in by_recv.items() if r != 'self']
    ok2 = bool(c2) and c2[0].args and unparse(c2[0].args[0]) == 'eq_sep_chars' and \
        isinstance(kwarg(c2[0], 'max_split'), ast.Constant) and kwarg(c2[0], 'max_split').value == 1
    ctx.decide('R18f', ok2, m, c2[0] if c2 else pk,
               'second split: part.split_at_chars(eq_sep_chars, max_split=1)',
               'each part is not split at the FIRST equals sign only (max_split=1)',
               construct='keyval: equals split')
    # key = first part, value = second part
    ks = [s for s in iter_own(pk) if isinstance(s, ast.Assign) and unparse(s.value).startswith('eq_sep_parts[')]
    idx = {unparse(s.targets[0]): unparse(s.value) for s in ks}
    ctx.decide('R18f', idx.get('key_nl') == 'eq_sep_parts[0]' and idx.get('value_nl') == 'eq_sep_parts[1]',
               m, ks[0] if ks else pk, 'key = part before, value = part after the equals sign',
               'key/value are taken from %s' % idx, construct='keyval: key/value parts')

    # ---------------------------------------------------------------- R18g / R18h
    # the value's braces are stripped only when the value IS one brace group
    # per path, with locals substituted: an assignment whose value is <B>.nodelist[0].nodelist
    cand = [x for x in iter_own(pk) if isinstance(x, ast.Assign) and isinstance(x.value, ast.Attribute)
            and x.value.attr == 'nodelist']
    unw = []
    try:
        ucs = symex.Walker(is_sink=lambda n_: any(n_ is x.value for x in cand), sink_types=(ast.Attribute,)).run(pk)
    except symex.TooManyPaths:
        ucs = []
    seen_u = set()
    for cs in ucs:
        v = cs.sub
        if not (isinstance(v, ast.Attribute) and isinstance(v.value, ast.Subscript) and
                isinstance(v.value.slice, ast.Constant) and v.value.slice.value == 0):
            continue
        unw.append(cs)
        base = unparse(v.value.value).rsplit('.nodelist', 1)[0]
        facts = symex.facts_of(cs.conds)
        exact = ('len(%s) == 1' % base, True) in facts or ('len(%s.nodelist) == 1' % base, True) in facts
        isgrp = any(pol and 'isNodeType(LatexGroupNode)' in t and t.startswith(base) for t, pol in facts)
        if exact and isgrp and id(cs.node) in seen_u:
            continue
        seen_u.add(id(cs.node))
        ctx.decide('R18h', exact and isgrp, m, cs.node,
                   'braces stripped only from a value that consists of exactly one group',
                   'the value is replaced by the contents of its first group without the test that the '
                   'value consists of exactly that one group (facts: %s): for k={a}b everything after '
                   'the group is dropped' % sorted(t for t, pol in facts if pol and base in t),
                   construct='keyval: strip value braces')
    # R18q: what is stripped is this pair's own value, before the repeated-key policy has combined it with an earlier one
    seen_q = set()
    for cs in unw:
        bexp = symex.expand(cs.sub.value.value, cs.env)
        btxt = unparse(bexp)
        own = isinstance(bexp, ast.Attribute) and bexp.attr == 'nodelist' and isinstance(bexp.value, ast.Subscript) and \
            isinstance(bexp.value.slice, ast.Constant) and bexp.value.slice.value == 1 and \
            isinstance(bexp.value.value, ast.Call) and call_name(bexp.value.value) == 'split_at_chars'
        if not own:
            it = symex.item_def(unparse(cs.sub.value.value.value) if isinstance(cs.sub.value.value, ast.Attribute) else '', cs.env)
            own = bool(it) and it[1] == 1 and isinstance(it[3], ast.Call) and call_name(it[3]) == 'split_at_chars'
        combined = [w for w in ('result_keyvals', 'dict_type()[', 'default_value_nodelist', 'repeated_key_aggregate_action(')
                    if w in btxt]
        if not own and not combined and 'split_at_chars(' in btxt:
            own = True   # this pair's own part, wrapped into a node list
        key_ = (id(cs.node), own, bool(combined))
        if key_ in seen_q:
            continue
        seen_q.add(key_)
        if own:
            ctx.holds('R18q', m, cs.node, 'the stripped value is the part after the equals sign of this pair',
                      construct='keyval: strip before combining')
        elif combined:
            ctx.refuted('R18q', m, cs.node, 'the braces are stripped from a value that the repeated-key policy / the default has '
                        'already produced (%s; it involves %s): with a repeated key the later braced values keep their braces '
                        '(`a={x},a={y}` concatenates x and the group {y}) or an already stripped first value is stripped again'
                        % (btxt[:100], combined[0].rstrip('([')), construct='keyval: strip before combining')
        else:
            ctx.unknown('R18q', m, cs.node, 'cannot tell which value is stripped: %s' % btxt[:100],
                        construct='keyval: strip before combining')
    if not unw:
        ctx.unknown('R18h', m, pk, 'no brace-stripping assignment found', construct='keyval: strip value braces')
    # opening delimiters are compared with opening delimiters (index coherence), package-wide in
    # the argument-content helpers
    pim = repo.mod('pylatexenc.latexnodes._parsedargsinfo')
    n_cmp = 0
    for mod_ in (pim, m):
        for c_ in ast.walk(mod_.tree):
            if isinstance(c_, ast.Compare) and len(c_.ops) == 1 and isinstance(c_.ops[0], (ast.Eq, ast.NotEq)):
                a_, b_ = c_.left, c_.comparators[0]
                if all(isinstance(z, ast.Subscript) and isinstance(z.slice, ast.Constant)
                       and isinstance(z.value, ast.Attribute) and z.value.attr.endswith('delimiters')
                       for z in (a_, b_)):
                    n_cmp += 1
                    ctx.decide('R18g', a_.slice.value == b_.slice.value, mod_, c_,
                               'delimiter %d compared with delimiter %d' % (a_.slice.value, b_.slice.value),
                               'an %s delimiter is compared with an %s delimiter (%s): the "different '
                               'delimiters" guard is always true, a doubly braced argument {{a=1,b=2}} is '
                               'unwrapped twice and its protected commas split'
                               % ('opening' if a_.slice.value == 0 else 'closing',
                                  'opening' if b_.slice.value == 0 else 'closing', short(c_)),
                               construct='delimiter comparison: ' + short(c_, 80))
    if not n_cmp:
        ctx.unknown('R18g', pim, None, 'no delimiter comparison found', construct='delimiter comparison')

    # ---------------------------------------------------------------- R18d
    for name in ('filter', 'split_at_node', 'split_at_chars', 'parse_keyval_content',
                 'get_content_as_chars'):
        f = meths.get(name)
        if f is None:
            continue
        bad = _tree_mutations(f)
        if bad:
            for b, why in bad:
                ctx.refuted('R18d', m, enclosing_stmt(b), why,
                            construct='%s: %s' % (name, short(enclosing_stmt(b), 80)))
        else:
            ctx.holds('R18d', m, f, 'no in-place mutation of an existing node list',
                      construct=name + ': read-only on the tree')

    # ---------------------------------------------------------------- R18e
    gns = inner.get('get_next_split')
    n_cal = [0]
    if gns is None:
        ctx.unknown('R18e', m, sac, 'get_next_split not found')
    else:
        bound = None
        for n in ast.walk(gns):
            if isinstance(n, ast.Compare) and len(n.ops) == 1 and \
                    unparse(n.comparators[0]) == 'max_split' and isinstance(n.ops[0], (ast.GtE, ast.Gt)):
                bound = n
        if bound is None:
            ctx.refuted('R18e', m, gns, 'max_split is no longer compared with a count of splits',
                        construct='max_split bound')
        else:
            lhs = unparse(bound.left)
            strict_ok = isinstance(bound.ops[0], ast.GtE)
            if lhs == 'len(split_node_lists)':
                ctx.decide('R18e', strict_ok, m, bound,
                           'bound counts the collected parts (every flush appends one)',
                           'bound uses > instead of >=: one split too many', construct='max_split bound: '
                           + short(bound))
            else:
                # a dedicated counter: must be incremented on every separator path
                cname = lhs.split('[')[0]
                sep_if = None
                for i in ast.walk(sac):
                    if isinstance(i, ast.If) and unparse(i.test).replace(' ', '') == 'next_sep_idx!=-1':
                        sep_if = i
                paths = _paths(sep_if.body) if sep_if is not None else []
                missing = [p for p in paths if not any(
                    isinstance(s, ast.AugAssign) and unparse(s.target).split('[')[0] == cname
                    for s in p)]
                ctx.decide('R18e', sep_if is not None and not missing and strict_ok, m, bound,
                           'counter %s incremented on all %d separator paths' % (cname, len(paths)),
                           'the max_split bound uses the counter %s, which is not incremented on '
                           '%d of the %d paths that consume a separator: more than max_split splits '
                           'are performed' % (cname, len(missing), len(paths)),
                           construct='max_split bound: ' + short(bound))
    # the bound dominates every way of finding a separator; a regex separator is searched in the
    # whole text from pos (left context kept)
    if gns is not None:
        pass
        bound_txt = None
        for n in ast.walk(gns):
            if isinstance(n, ast.Compare) and len(n.ops) == 1 and unparse(n.comparators[0]) == 'max_split' \
                    and isinstance(n.ops[0], (ast.GtE, ast.Gt)):
                bound_txt = unparse(n)
        ctx.rule('R18w', 'a callable separator is called with the whole text of the chars node and the position to search from '
                         '(`sep_chars(chars, pos)`), never with a slice and a rebased position: it may look at what precedes the '
                         'position', 1)
        ctx.rule('R18y', 'get_next_split: where the separator is a plain string found with `<text>.find(<sep>, pos)`, the reported '
                         'match is (start, start + len(<sep>)) -- the whole separator is consumed, whatever its length '
                         '(decided on the returned tuple after substitution of the locals)', 1)
        n_fd = [0]
        try:
            rcs = symex.return_cases(gns)
        except symex.TooManyPaths:
            rcs = []
        for cs in rcs:
            v = symex.expand(cs.sub, cs.env)
            nosplit = isinstance(v, ast.Tuple) and v.elts and unparse(v.elts[0]) == '-1'
            if nosplit:
                continue
            facts = symex.facts_of(cs.conds, cs.env)
            passed = bound_txt is not None and any(
                (t_ == bound_txt and not p_) or (t_.endswith(bound_txt) and t_.startswith('max_split is not None and') and not p_)
                for t_, p_ in facts)
            cons = 'get_next_split: %s' % short(cs.node, 60)
            ctx.decide('R18e', passed, m, cs.node, 'separator search only after the max_split bound was checked',
                       'this way of finding the next separator (%s) is reached without the max_split bound '
                       'having been checked: for regular-expression / callable separators max_split is '
                       'ignored (parse_keyval_content with a regex `=` separator splits a value that '
                       'contains `=`)' % short(v, 60), construct=cons)
            # R18y: a separator found with str.find() ends len(separator) characters after its start
            if isinstance(v, ast.Tuple) and len(v.elts) == 2 and isinstance(v.elts[0], ast.Call) and \
                    call_name(v.elts[0]) in ('find', 'index') and v.elts[0].args:
                n_fd[0] += 1
                e0_, sp_ = unparse(v.elts[0]), unparse(v.elts[0].args[0])
                e1_ = unparse(v.elts[1])
                ok_y = e1_ in ('%s + len(%s)' % (e0_, sp_), 'len(%s) + %s' % (sp_, e0_))
                ctx.decide('R18y', ok_y, m, cs.node, 'a separator found with %s() ends len(%s) after its start' % (
                               call_name(v.elts[0]), sp_),
                           'get_next_split reports the separator found by %s as ending at %s, not at start + len(%s): for a '
                           'separator of more than one character (`::`, `, `, `:=`) the rest of the separator stays in the '
                           'next part, the parts no longer reproduce the text between the separators, and '
                           'parse_keyval_content with such separators returns wrong keys and values'
                           % (short(v.elts[0], 40), short(v.elts[1], 50), sp_), construct='get_next_split: string separator end')
            srch = [c_ for c_ in ast.walk(v) if isinstance(c_, ast.Call) and call_name(c_) == 'search']
            for c_ in srch:
                whole = len(c_.args) == 2 and isinstance(c_.args[0], ast.Name)
                ctx.decide('R18i', whole, m, cs.node, 'regex searched in the whole text from pos',
                           'the separator pattern is searched in %s: a slice loses the text to the left, so '
                           'look-behind, \\b and ^ see a different context and the text is split at places '
                           'the pattern does not match in the original' % short(c_, 50),
                           construct='get_next_split: regex search')
            gp_ = [a_.arg for a_ in gns.args.args]
            for c_ in [c_ for c_ in ast.walk(v) if isinstance(c_, ast.Call) and isinstance(c_.func, ast.Name)
                       and c_.func.id == (sac.args.args[1].arg if len(sac.args.args) > 1 else 'sep_chars')]:
                n_cal[0] += 1
                whole = len(c_.args) == 2 and len(gp_) >= 2 and unparse(c_.args[0]) == gp_[0] and unparse(c_.args[1]) == gp_[1] \
                    and not c_.keywords
                ctx.decide('R18w', whole, m, cs.node, 'callable separator called with the whole text and the position',
                           'the separator callable is called as %s instead of (%s): the documented signature hands it the whole '
                           'text of the node and the position to search from -- with a slice, a separator that looks at what stands '
                           'before the position (an escaped comma, a precomputed absolute index) answers for another place and '
                           'the list is split where the caller said it must not be' % (short(c_, 50), ', '.join(gp_[:2])),
                           construct='get_next_split: callable separator')
    if gns is not None:
        if not n_fd[0]:
            ctx.unknown('R18y', m, gns, 'no return of a str.find() match found in get_next_split',
                        construct='get_next_split: string separator end')
        if not n_cal[0]:
            ctx.unknown('R18w', m, gns, 'no call of the separator callable found in get_next_split',
                        construct='get_next_split: callable separator')
    # split_at_node bound
    for n in ast.walk(san):
        if isinstance(n, ast.Compare) and unparse(n.comparators[0]) == 'max_split' and \
                isinstance(n.ops[0], (ast.GtE, ast.Gt, ast.Eq)) and 'len(' in unparse(n.left):
            ctx.holds('R18e', m, n, 'split_at_node bounds the number of parts by max_split '
                                    '(at most max_split splits)', construct='split_at_node bound: '
                      + short(n), trivial=True)
    ctx.assume('separator callables / regular expressions supplied by the caller are outside the rule')
    # ---- R18j: positions are never tested by truthiness
    ctx.rule('R18j', 'a separator position (offset 0 is a valid match position) is never tested by truthiness in '
                     'the splitting code', 0)
    from . import gcommon as _gc
    n_pt = 0
    for q_, f_ in sorted(m.functions.items()):
        for nm_, t_, where_ in _gc.position_truthiness(f_):
            n_pt += 1
            ctx.refuted('R18j', m, where_, '%s: the position %s is tested by truthiness (%s): a match at offset 0 -- a '
                        'separator at the very start of a character node -- is treated like "no match", so the node '
                        'is not split there' % (q_, nm_, short(where_, 60)),
                        construct='%s: truthiness of %s' % (q_, nm_))
    ctx.holds('R18j', m, None, 'no position-like local used as a number is tested by truthiness in nodes.py',
              construct='position truthiness scan', trivial=True)

    # ---- R18k: split_at_node places every node
    ctx.rule('R18k', 'split_at_node: on every path of its loop the node is appended to a part, unless it is a skipped '
                     'None or the separator at which a new part is started', 1)
    sloops = [l_ for l_ in san.body if isinstance(l_, ast.For)]
    if len(sloops) != 1 or not isinstance(sloops[0].target, ast.Name):
        ctx.unknown('R18k', m, san, 'single loop over the nodes not found', construct='split_at_node: placement')
    else:
        lv_ = sloops[0].target.id
        try:
            pcs = symex.Walker(want_exits=True, trace=True,
                               is_sink=lambda c_: call_name(c_) in ('append', 'extend', 'insert')).run_block(sloops[0].body)
        except symex.TooManyPaths:
            pcs = None
        if pcs is None:
            ctx.unknown('R18k', m, sloops[0], 'too many paths', construct='split_at_node: placement')
        else:
            bad = None
            bad_bound = [None]
            n_paths = 0
            for cs in pcs:
                if cs.kind not in ('end', 'continue'):
                    if cs.kind in ('break', 'return') and bad is None:
                        bad = (cs, 'the loop is left early')
                    continue
                n_paths += 1
                tr_ = [t_ for t_ in cs.env.get('#trace', ()) if isinstance(t_[0], ast.Call)]
                # (the substituted call: a part built in a local first, `c = [n] if keep else []; parts.append(c)`)
                placed = any(isinstance(x, ast.Name) and x.id == lv_ for t_ in tr_ for a_ in t_[1].args
                             for x in ast.walk(a_))
                newpart = any(isinstance(a_, ast.List) for t_ in tr_ for a_ in t_[1].args)
                facts = symex.facts_of(cs.conds, cs.env)
                isnone = ('%s is None' % lv_, True) in facts
                if not (placed or newpart or isnone) and bad is None:
                    bad = (cs, 'the node is neither appended to a part nor the separator of a new part')
                # a path that starts a new part also counts it against max_split
                started = any(call_name(t_[1]) == 'append' and t_[1].args and isinstance(t_[1].args[0], ast.List)
                              and not (t_[1].args[0].elts and unparse(call_recv(t_[1]) or ast.Constant(None)).endswith(']'))
                              for t_ in tr_)
                if started:
                    bounded = any('max_split' in unparse(a_) and 'len(' in unparse(a_)
                                  for t2_, p2_ in cs.conds for a_, ap_ in symex._atoms(t2_, p2_)) or any(
                        'max_split' in unparse(t2_) and 'len(' in unparse(t2_) for t2_, p2_ in cs.conds)
                    if not bounded and bad_bound[0] is None:
                        bad_bound[0] = cs
            ctx.decide('R18k', bad is None and n_paths > 0, m, sloops[0],
                       'every node is appended, starts a new part, or is a skipped None (%d path(s))' % n_paths,
                       'split_at_node: on the path [%s] %s: the node disappears from the result (separators met '
                       'after max_split was reached are dropped from the remainder, so the parts no longer '
                       'reproduce the list)' % (' & '.join(bad[0].cond_src())[:200] if bad else '', bad[1] if bad else ''),
                       construct='split_at_node: placement')

            ctx.decide('R18k', bad_bound[0] is None, m, sloops[0],
                       'every path that starts a new part tests the number of parts against max_split',
                       'split_at_node starts a new part on the path [%s] without comparing the number of parts with max_split: '
                       'with keep_separators=True every separator splits, whatever max_split says'
                       % (' & '.join(bad_bound[0].cond_src())[:160] if bad_bound[0] else ''),
                       construct='split_at_node: max_split on every splitting path')

    # every return of split_at_node hands out the parts that the loop collected (skip_none, keep_separators and
    # call_make_nodelist apply to every call, also with max_split=0)
    if len(sloops) == 1:
        acc_ = {unparse(call_recv(c_)).split('[')[0] for c_ in ast.walk(sloops[0]) if isinstance(c_, ast.Call)
                and call_name(c_) == 'append' and call_recv(c_) is not None}
        try:
            srs = [c_ for c_ in symex.Walker(want_returns=True).run(san) if c_.kind == 'return']
        except symex.TooManyPaths:
            srs = []
        bad_r = None
        for cs in srs:
            txt_ = unparse(symex.expand(cs.sub, cs.env))
            if not any(a_ and a_ in txt_ for a_ in acc_) and bad_r is None:
                bad_r = cs
        ctx.decide('R18k', bad_r is None and bool(srs), m, bad_r.node if bad_r else san,
                   'every return of split_at_node returns the collected parts',
                   'split_at_node returns %s on the path [%s] without going through the loop that collects the parts: None '
                   'placeholders are not skipped (skip_none) and the part is not built by the node-list factory, so '
                   'max_split=0 answers differently from every other max_split on the same list'
                   % (short(bad_r.sub, 30) if bad_r else '', ' & '.join(bad_r.cond_src())[:100] if bad_r else ''),
                   construct='split_at_node: returns')

    # ---- R18l: the walker's node-list factory needs its parsing_state keyword
    ctx.rule('R18l', 'every call of a node-list factory that may be the walker\'s make_nodelist() (a local bound to '
                     '<walker>.make_nodelist) passes parsing_state=, which that method requires (kwargs.pop without '
                     'default)', 3)
    wm_ = repo.mod('pylatexenc.latexwalker._walker')
    mk_ = wm_.methods('LatexWalker').get('make_nodelist')
    required_kw = set()
    if mk_ is not None:
        for c_ in iter_own(mk_):
            if isinstance(c_, ast.Call) and call_name(c_) == 'pop' and call_recv(c_) is not None and \
                    unparse(call_recv(c_)) == (mk_.args.kwarg.arg if mk_.args.kwarg else 'kwargs') and \
                    len(c_.args) == 1 and isinstance(c_.args[0], ast.Constant):
                required_kw.add(c_.args[0].value)
    if not required_kw:
        ctx.unknown('R18l', wm_, mk_, 'required keywords of LatexWalker.make_nodelist not found', construct='make_nodelist')
    else:
        for q_, f_ in sorted(m.functions.items()):
            aliases = {t_.id for st_ in ast.walk(f_) if isinstance(st_, ast.Assign) for t_ in st_.targets
                       if isinstance(t_, ast.Name) and isinstance(st_.value, ast.Attribute) and st_.value.attr == 'make_nodelist'}
            if not aliases:
                continue
            for c_ in ast.walk(f_):
                if isinstance(c_, ast.Call) and isinstance(c_.func, ast.Name) and c_.func.id in aliases:
                    given = {k.arg for k in c_.keywords}
                    ok = required_kw <= given or None in given
                    ctx.decide('R18l', ok, m, c_, '%s: %s passes %s' % (q_, short(c_, 50), sorted(required_kw)),
                               '%s calls the node-list factory without %s (%s): when the list came from a LatexWalker the '
                               'factory is its make_nodelist(), which pops that keyword without a default -- KeyError; '
                               'hand-built lists use the fallback lambda and work' % (
                                   q_, sorted(required_kw - given), short(c_, 60)),
                               construct='%s: %s' % (q_, short(c_, 50)))

    # ---- R18m: shorthand methods forward every option
    ctx.rule('R18m', 'every named parameter of the shorthand methods of the argument-info classes is used (reaches the '
                     'forwarded call): an option accepted but not forwarded silently takes its default', 4)
    for q_, f_ in sorted(pim.functions.items()):
        if f_.name.startswith('__') or not f_.args.args:
            continue
        names_ = {x.id for x in ast.walk(f_) if isinstance(x, ast.Name) and isinstance(x.ctx, ast.Load)}
        for a_ in list(f_.args.args[1:]) + list(f_.args.kwonlyargs):
            ctx.decide('R18m', a_.arg in names_, pim, f_, '%s: parameter %s is used' % (q_, a_.arg),
                       '%s accepts the option %s but never uses it: the call it forwards to runs with that option at '
                       'its default (repeated keys are concatenated whatever policy was asked for)' % (q_, a_.arg),
                       construct='%s(%s)' % (q_, a_.arg), trivial=True)

    # ---- R18t: a forwarded option keeps the default of the method it is forwarded to
    ctx.rule('R18t', 'where a shorthand of the argument-info classes passes an option on to another method of its class, the value '
                     'it passes when the caller says nothing is that method\'s own default: key-value parsing of an argument '
                     'looks at the same content node list as get_content_nodelist() returns', 0)
    n_fo = 0
    for q_, f_ in sorted(pim.functions.items()):
        if '.' not in q_:
            continue
        cls_ = q_.rsplit('.', 1)[0]
        ldefs = {}
        for a_ in iter_own(f_):
            if isinstance(a_, ast.Assign) and len(a_.targets) == 1 and isinstance(a_.targets[0], ast.Name):
                ldefs.setdefault(a_.targets[0].id, []).append(a_.value)
        pdef = {}
        pa_ = f_.args.args[1:]
        for a_, d_ in zip(pa_[len(pa_) - len(f_.args.defaults):], f_.args.defaults):
            pdef[a_.arg] = d_
        for c_ in iter_own(f_):
            if not (isinstance(c_, ast.Call) and is_self_attr(c_.func) and cls_ + '.' + c_.func.attr in pim.functions):
                continue
            tgt = pim.functions[cls_ + '.' + c_.func.attr]
            ta_ = tgt.args.args[1:]
            tdef = dict(zip([x_.arg for x_ in ta_[len(ta_) - len(tgt.args.defaults):]], tgt.args.defaults))
            for k_ in c_.keywords:
                if k_.arg is None or k_.arg not in tdef:
                    continue
                v_ = k_.value
                dflt = None
                if isinstance(v_, ast.Name) and len(ldefs.get(v_.id, [])) == 1:
                    v_ = ldefs[v_.id][0]
                if isinstance(v_, ast.Call) and call_name(v_) in ('pop', 'get') and len(v_.args) == 2:
                    dflt = v_.args[1]
                elif isinstance(v_, ast.Call) and call_name(v_) in ('pop', 'get') and len(v_.args) == 1:
                    dflt = ast.Constant(value=None)
                elif isinstance(v_, ast.Name) and v_.id in pdef:
                    dflt = pdef[v_.id]
                if dflt is None:
                    continue
                n_fo += 1
                ctx.decide('R18t', unparse(dflt) == unparse(tdef[k_.arg]), pim, c_,
                           '%s forwards %s with the default %s of %s' % (q_, k_.arg, unparse(dflt), c_.func.attr),
                           '%s passes %s=%s to %s() when the caller says nothing, but %s() itself defaults to %s: the two ways of '
                           'reaching the content disagree (a double-wrapped argument `[{a=1,b}]` is one key for '
                           'parse_content_as_keyval and three parts for get_content_nodelist().split_at_chars)'
                           % (q_, k_.arg, unparse(dflt), c_.func.attr, c_.func.attr, unparse(tdef[k_.arg])),
                           construct='%s -> %s(%s=)' % (q_, c_.func.attr, k_.arg))
    ctx.holds('R18t', pim, None, '%d forwarded option default(s) compared' % n_fo, construct='forwarded defaults scan', trivial=True)

    # ---- R18x: the double unwrap happens only for a group that holds nothing but the inner group
    ctx.rule('R18x', 'SingleParsedArgumentInfo: a method hands back the node list of an inner node taken from position 0 of the '
                     'argument group (`<g>.nodelist[0].nodelist`, the "double unwrap" of `[{[}]`) only on a path that has '
                     'established `len(<g>.nodelist) == 1`: with more nodes in the group (`[{a}=1,b=2]`) the rest of the '
                     'argument would vanish from what split_at_chars / parse_content_as_keyval see', 1)
    n_du = 0
    for q_, f_ in sorted(pim.functions.items()):
        if not q_.startswith('SingleParsedArgumentInfo.'):
            continue
        ldefs_ = {}
        for a_ in iter_own(f_):
            if isinstance(a_, ast.Assign) and len(a_.targets) == 1 and isinstance(a_.targets[0], ast.Name):
                ldefs_.setdefault(a_.targets[0].id, []).append(a_.value)

        def _first_of(e_):
            # e_ is `<g>.nodelist[0]` -> text of <g>.nodelist
            if isinstance(e_, ast.Subscript) and isinstance(e_.slice, ast.Constant) and e_.slice.value == 0 and \
                    isinstance(e_.value, ast.Attribute) and e_.value.attr == 'nodelist':
                return unparse(e_.value)
            # `<nl>[0]` where <nl> is a local bound once to `<g>.nodelist`: the path facts speak of the local
            if isinstance(e_, ast.Subscript) and isinstance(e_.slice, ast.Constant) and e_.slice.value == 0 and \
                    isinstance(e_.value, ast.Name) and len(ldefs_.get(e_.value.id, ())) == 1 and \
                    isinstance(ldefs_[e_.value.id][0], ast.Attribute) and ldefs_[e_.value.id][0].attr == 'nodelist':
                return e_.value.id
            return None
        for r_ in iter_own(f_):
            if not (isinstance(r_, ast.Return) and isinstance(r_.value, ast.Attribute) and r_.value.attr == 'nodelist'):
                continue
            inner_ = r_.value.value
            srcs_ = [inner_]
            if isinstance(inner_, ast.Name):
                srcs_ = ldefs_.get(inner_.id, [])
            outer_ = [t_ for t_ in (_first_of(e_) for e_ in srcs_) if t_]
            if not outer_:
                continue
            n_du += 1
            facts_ = {(unparse(t_), pol_) for t_, pol_ in atomic_facts(r_)}
            ok_ = all(('len(%s) == 1' % o_, True) in facts_ or ('1 == len(%s)' % o_, True) in facts_ or
                      ('len(%s) != 1' % o_, False) in facts_ for o_ in outer_)
            ctx.decide('R18x', ok_, pim, r_, '%s: inner node list returned only for a one-node group' % q_,
                       '%s returns the node list of %s[0] on a path that has not established len(%s) == 1: for an argument '
                       'such as `[{a}=1,b=2]` the content node list is only `a`, and the keys and separators after the inner '
                       'group are lost to split_at_chars and parse_content_as_keyval' % (q_, outer_[0], outer_[0]),
                       construct='%s: double unwrap' % q_)
    if not n_du:
        ctx.unknown('R18x', pim, None, 'no double unwrap found in SingleParsedArgumentInfo', construct='double unwrap')

    # ---- R18n: None placeholders in a node list
    ctx.rule('R18n', 'a loop over a node list that compares its element with None reads attributes of the element only '
                     'where it is known not to be None (grules.loop_var_none_deref, per path)', 0)
    from .. import grules as _gr
    n_nd = 0
    for q_, f_ in sorted(m.functions.items()):
        for x_, v_, path_ in _gr.loop_var_none_deref(f_):
            n_nd += 1
            ctx.refuted('R18n', m, enclosing_stmt(x_) or x_, '%s: the loop compares %s with None but reads %s on the path [%s], '
                        'where it may still be None: with skip_none=False a None placeholder (an optional argument that '
                        'was not given) raises AttributeError instead of being kept in its part'
                        % (q_, v_, short(x_, 40), path_), construct='%s: %s on a possibly-None element' % (q_, short(x_, 40)))
    ctx.holds('R18n', m, None, 'no attribute read on a possibly-None loop element in nodes.py', construct='None element scan',
              trivial=True)

    # ---- R18o: every chars node is scanned for separators
    ctx.rule('R18o', 'split_at_chars: on every path of its loop on which the node is a chars node, the node is scanned with '
                     'get_next_split() (no shortcut by length or content skips a node that may hold a separator)', 1)
    sl_ = [l_ for l_ in sac.body if isinstance(l_, ast.For)]
    if len(sl_) != 1:
        ctx.unknown('R18o', m, sac, 'main loop of split_at_chars not found', construct='split_at_chars: scan')
    else:
        lv_ = sl_[0].target.id if isinstance(sl_[0].target, ast.Name) else None
        try:
            _has_scan = lambda s_: isinstance(s_, (ast.While, ast.For)) and any(
                isinstance(x_, ast.Call) and call_name(x_) == 'get_next_split' for x_ in ast.walk(s_))
            scs = symex.Walker(want_exits=True, trace=True, is_sink=lambda c_: call_name(c_) == 'get_next_split',
                               stmt_sink=_has_scan).run_block(sl_[0].body)
        except symex.TooManyPaths:
            scs = None
        if scs is None:
            ctx.unknown('R18o', m, sl_[0], 'too many paths', construct='split_at_chars: scan')
        else:
            bad_ = None
            n_ch = 0
            for cs in scs:
                if cs.kind not in ('end', 'continue', 'break'):
                    continue
                facts = symex.facts_of(cs.conds, cs.env)
                if ('%s.isNodeType(LatexCharsNode)' % lv_, True) not in facts:
                    continue
                n_ch += 1
                scanned = any(isinstance(t_[0], (ast.Call, ast.While, ast.For)) for t_ in cs.env.get('#trace', ()))
                if not scanned and bad_ is None:
                    bad_ = cs
            ctx.decide('R18o', bad_ is None and n_ch > 0, m, bad_.node if bad_ and bad_.node is not None else sl_[0],
                       'every chars-node path calls get_next_split (%d path(s))' % n_ch,
                       'split_at_chars leaves a chars node unscanned on the path [%s]: a chars node that consists of the '
                       'separator only (`{a},{b}`) is kept whole and the list is not split there, while regular-expression '
                       'and callable separators still split' % (' & '.join(bad_.cond_src())[-140:] if bad_ else ''),
                       construct='split_at_chars: scan')
    # ---- R18s: a chunk of a chars node is kept exactly when it is not empty
    ctx.rule('R18s', 'split_at_chars: a chunk n.chars[a:b] becomes a node on every path on which it is non-empty -- the only test on '
                     'the chunk is its length: a chunk of blanks is text of the source like any other, dropping it (strip()) makes '
                     'the joined parts differ from the source and turns `k= {x}` into a lone group', 3)
    try:
        ccs = symex.Walker(is_sink=lambda c_: call_name(c_) == 'chars_to_node').run(sac)
    except symex.TooManyPaths:
        ccs = None
    if ccs is None:
        ctx.unknown('R18s', m, sac, 'too many paths', construct='split_at_chars: chunk tests')
    else:
        seen_s = set()
        for cs in ccs:
            if not cs.sub.args:
                continue
            ctxt = unparse(cs.sub.args[0])
            odd = []
            for t_, p_ in cs.conds:
                for a_, ap_ in symex._atoms(t_, p_):
                    at = unparse(a_)
                    if ctxt in at and at not in (ctxt, 'len(%s)' % ctxt, 'len(%s) > 0' % ctxt, 'len(%s) != 0' % ctxt,
                                                 'len(%s) == 0' % ctxt, 'len(%s) >= 1' % ctxt, 'not %s' % ctxt):
                        odd.append(at)
            key_ = (id(cs.node), tuple(odd))
            if key_ in seen_s:
                continue
            seen_s.add(key_)
            ctx.decide('R18s', not odd, m, cs.node, 'chunk %s kept when non-empty' % short(cs.sub.args[0], 40),
                       'the chunk %s becomes a node only when %s: a chunk that fails this test although it is not empty (blanks '
                       'between a separator and a following group or macro) is dropped from the parts'
                       % (short(cs.sub.args[0], 40), ' and '.join(o_[:60] for o_ in odd)),
                       construct='split_at_chars: chunk %s' % short(cs.sub.args[0], 40))
    # ---- R18v: a node list always knows where it ends
    ctx.rule('R18v', 'LatexNodeList.__init__ completes a missing pos / pos_end from its nodes whenever one of them is missing: the '
                     'completion is unconditional, or guarded by a test that mentions both (the key-value code passes pos= and '
                     'relies on pos_end being filled in: otherwise a concatenated repeated key has pos_end None and len None)', 1)
    nli = m.functions.get('LatexNodeList.__init__')
    upd = [a_ for a_ in iter_own(nli) if isinstance(a_, ast.Assign) and isinstance(a_.value, ast.Call)
           and call_name(a_.value) == '_update_posposend_from_nodelist'] if nli is not None else []
    if not upd:
        ctx.unknown('R18v', m, nli, 'position completion in LatexNodeList.__init__ not found', construct='LatexNodeList.__init__: positions')
    for a_ in upd:
        conds_ = [(unparse(t_), p_) for t_, p_ in atomic_facts(a_)]
        inside = [p_ for p_ in parents(a_) if isinstance(p_, (ast.If, ast.For, ast.While, ast.Try)) and any(
            p_ is q_ for q_ in ast.walk(nli))]
        okv = not inside or all(isinstance(p_, ast.If) and 'pos_end' in unparse(p_.test) and
                                re.search(r'\bpos\b(?!_)', unparse(p_.test).replace('pos_end', 'POSEND')) for p_ in inside)
        ctx.decide('R18v', bool(okv), m, a_, 'positions completed whenever one is missing',
                   'LatexNodeList.__init__ completes the positions only under [%s]: a list constructed with pos= but without '
                   'pos_end= (parse_keyval_content does this when it concatenates the values of a repeated key) keeps '
                   'pos_end None, so its len is None' % ' & '.join(('' if p_ else 'not ') + t_ for t_, p_ in conds_)[:120],
                   construct='LatexNodeList.__init__: positions')

    # ---- R18u: the characters of a node list are collected in document order
    ctx.rule('R18u', '_get_content_as_chars (the key of a key-value pair, get_content_as_chars()) takes the contents of a group at '
                     'the place of the group: the function either calls itself on the group\'s list where it meets the group, or '
                     'puts the children at the FRONT of its work list; children appended to the end of a work list are read '
                     'after everything that follows the group (`a{,}b` gives `ab,`)', 1)
    gca = m.functions.get('_get_content_as_chars')
    if gca is None:
        # found through its user: the module-level function LatexNodeList.get_content_as_chars() hands its list to
        pub_ = m.functions.get('LatexNodeList.get_content_as_chars')
        for c_ in (ast.walk(pub_) if pub_ is not None else ()):
            if isinstance(c_, ast.Call) and isinstance(c_.func, ast.Name) and c_.func.id in m.functions and gca is None:
                gca = m.functions[c_.func.id]
    if gca is None:
        ctx.unknown('R18u', m, None, '_get_content_as_chars not found', construct='_get_content_as_chars: order')
    else:
        worklists = set()
        for c_ in ast.walk(gca):
            if isinstance(c_, ast.Call) and call_name(c_) == 'pop' and isinstance(call_recv(c_), ast.Name) and \
                    any(isinstance(p_, (ast.While, ast.For)) for p_ in parents(c_)):
                worklists.add(call_recv(c_).id)
        for l_ in ast.walk(gca):
            if isinstance(l_, ast.For) and isinstance(l_.iter, ast.Name):
                worklists.add(l_.iter.id)
        deferred = [c_ for c_ in ast.walk(gca) if isinstance(c_, ast.Call) and call_name(c_) in ('extend', 'append')
                    and isinstance(call_recv(c_), ast.Name) and call_recv(c_).id in worklists
                    and any(isinstance(p_, (ast.While, ast.For)) for p_ in parents(c_))]
        ctx.decide('R18u', not deferred, m, deferred[0] if deferred else gca,
                   'group contents are taken in place (recursion, or insertion at the front of the work list)',
                   '_get_content_as_chars puts the children of a group at the END of the list it is working through (%s): they are '
                   'read after the nodes that follow the group, so the characters come out of document order and the key '
                   '`a{,}b` reads `ab,`' % (short(deferred[0], 50) if deferred else ''),
                   construct='_get_content_as_chars: order')
    # ---- R18r: one separator closes one part
    ctx.rule('R18r', 'split_at_chars: on every path through one turn of the scanning loop a separator closes at most one part '
                     '(one flush), and with keep_empty exactly one: a separator never produces an extra empty part in front of '
                     'the part it closes', 1)
    wl_ = [w_ for w_ in iter_own(sac) if isinstance(w_, ast.While) and any(
        isinstance(x_, ast.Call) and call_name(x_) == 'get_next_split' for x_ in ast.walk(w_))]
    if len(wl_) != 1:
        ctx.unknown('R18r', m, sac, 'scanning loop of split_at_chars not found', construct='split_at_chars: parts per separator')
    else:
        try:
            fcs = symex.Walker(want_exits=True, trace=True, is_sink=lambda c_: call_name(c_) == 'flush_nodes'
                               ).run_block(wl_[0].body)
        except symex.TooManyPaths:
            fcs = None
        if fcs is None:
            ctx.unknown('R18r', m, wl_[0], 'too many paths', construct='split_at_chars: parts per separator')
        else:
            badf, n_sep = None, 0
            for cs in fcs:
                if cs.kind not in ('end', 'continue', 'break'):
                    continue
                atoms = {(unparse(a_), ap_) for t_, p_ in cs.conds for a_, ap_ in symex._atoms(t_, p_)}
                found = any(('!= -1' in t_ and ap_) or ('== -1' in t_ and not ap_) for t_, ap_ in atoms)
                if not found:
                    continue
                n_sep += 1
                nfl = len([1 for nd_, sub_ in cs.env.get('#trace', ()) if call_name(sub_) == 'flush_nodes'])
                keep = ('keep_empty', True) in atoms
                if (nfl > 1 or (keep and nfl != 1)) and badf is None:
                    badf = (cs, nfl)
            ctx.decide('R18r', badf is None and n_sep > 0, m, badf[0].node if badf and badf[0].node is not None else wl_[0],
                       '%d separator path(s): at most one part closed per separator, exactly one with keep_empty' % n_sep,
                       'split_at_chars closes %d parts for one separator on the path [%s]: with keep_empty an empty part is '
                       'emitted in front of the pending nodes (`{x},b` gives \'\', {x}, b), so the parts no longer correspond '
                       'to the separators' % (badf[1] if badf else 0, ' & '.join(badf[0].cond_src())[-160:] if badf else ''),
                       construct='split_at_chars: parts per separator')
    # ---- R18p: every key=value part reaches the repeated-key policy
    ctx.rule('R18p', 'parse_keyval_content: the only part that is skipped is an empty one; every other part -- also a bare key '
                     'seen before -- reaches the code that applies the repeated-key policy', 1)
    kl_ = [l_ for l_ in iter_own(pk) if isinstance(l_, ast.For)]
    if not kl_:
        ctx.unknown('R18p', m, pk, 'loop over the parts not found', construct='parse_keyval_content: skipped parts')
    else:
        try:
            kcs = symex.Walker(want_exits=True).run_block(kl_[0].body)
        except symex.TooManyPaths:
            kcs = []
        badk = None
        for cs in kcs:
            if cs.kind != 'continue':
                continue
            facts = symex.facts_of(cs.conds, cs.env)
            empty = any(p_ and ('len(' in t_ and '== 0' in t_) for t_, p_ in facts) or any(
                (not p_) and t_.startswith('len(') is False and False for t_, p_ in facts)
            if not empty and badk is None:
                badk = cs
        ctx.decide('R18p', badk is None and bool(kcs), m, badk.node if badk else kl_[0],
                   'only empty parts are skipped',
                   'parse_keyval_content skips a part on the path [%s]: the repeated-key policy never sees it (`a=1,a` with '
                   "'error' does not raise, 'last' keeps the old value, 'concatenate' drops the placeholder)"
                   % (' & '.join(badk.cond_src())[-140:] if badk else ''), construct='parse_keyval_content: skipped parts')

    return 'other', (
        'Decides per site that chunk text and chunk position use the same bounds, that only '
        'top-level chars nodes are searched, that the key-value result is type-consistent across '
        'policy branches, that the query functions are read-only on the tree, and that the '
        'max_split bound is maintained on every separator path.  The partition identity (joining '
        'the parts reproduces the source) is a value-level statement and is not decided.')


def _value_kind(v, getvars=()):
    if isinstance(v, ast.Name) and v.id in getvars:
        return 'nodelist'      # what result_keyvals.get() returned: a stored value
    if isinstance(v, ast.Call) and call_name(v) in ('make_nodelist', 'LatexNodeList'):
        return 'nodelist'
    if isinstance(v, ast.Call) and unparse(v.func) == 'repeated_key_aggregate_action':
        return 'callable'
    if isinstance(v, ast.Subscript) and unparse(v.value) == 'result_keyvals':
        return 'nodelist'
    if isinstance(v, ast.Attribute) and v.attr == 'nodelist':
        return 'plain list'
    if isinstance(v, (ast.List, ast.ListComp)):
        return 'plain list'
    if isinstance(v, ast.BinOp):
        return 'plain list'
    if isinstance(v, ast.Name):
        return 'nodelist' if v.id in ('value_nl', 'default_value_nodelist') else 'unknown'
    return 'unknown'


def _tree_mutations(f):
    """In-place mutations of `.nodelist` / `.argnlist` of existing objects, directly or through
    a local alias."""
    alias = {}
    out = []
    for s in ast.walk(f):
        if isinstance(s, ast.Assign) and len(s.targets) == 1 and isinstance(s.targets[0], ast.Name) \
                and isinstance(s.value, ast.Attribute) and s.value.attr in ('nodelist', 'argnlist'):
            alias[s.targets[0].id] = unparse(s.value)
    for s in ast.walk(f):
        if isinstance(s, ast.AugAssign):
            t = s.target
            if isinstance(t, ast.Attribute) and t.attr in ('nodelist', 'argnlist'):
                out.append((s, 'augmented assignment on %s mutates a node list of the parsed tree '
                               'in place' % unparse(t)))
            elif isinstance(t, ast.Name) and t.id in alias:
                out.append((s, '`%s %s= ...` extends %s in place (the name is an alias of that '
                               'list): repeated calls / shared default values accumulate nodes and '
                               'the parsed tree changes' % (t.id, '+', alias[t.id])))
        elif isinstance(s, ast.Call) and call_name(s) in MUT and call_recv(s) is not None:
            r = call_recv(s)
            if isinstance(r, ast.Attribute) and r.attr in ('nodelist', 'argnlist'):
                out.append((s, '%s() on %s mutates a node list of the parsed tree in place'
                            % (call_name(s), unparse(r))))
            elif isinstance(r, ast.Name) and r.id in alias:
                out.append((s, '%s() on %s, an alias of %s, mutates the parsed tree in place'
                            % (call_name(s), r.id, alias[r.id])))
        elif isinstance(s, ast.Assign):
            for t in s.targets:
                if isinstance(t, ast.Subscript) and isinstance(t.value, ast.Attribute) and \
                        t.value.attr in ('nodelist', 'argnlist'):
                    out.append((s, 'item assignment into %s mutates the parsed tree' % unparse(t.value)))
    return out


def _paths(stmts):
    """Enumerate statement paths through a block (if/else only), each path = list of simple
    statements executed, ending at continue/break/return or the end of the block."""
    res = [[]]
    for s in stmts:
        if isinstance(s, ast.If):
            a = _paths(s.body)
            b = _paths(s.orelse) if s.orelse else [[]]
            new = []
            for r in res:
                if r and isinstance(r[-1], (ast.Continue, ast.Break, ast.Return)):
                    new.append(r)
                    continue
                for x in a + b:
                    new.append(r + x)
            res = new
        else:
            res = [r if (r and isinstance(r[-1], (ast.Continue, ast.Break, ast.Return)))
                   else r + [s] for r in res]
    return res
