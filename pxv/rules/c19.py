# -*- coding: utf-8 -*-
"""C19  A node visitor sees every node exactly once, children first, in document order.

V1 double dispatch; V2 each node_standard_process_<kind> descends once into each
child-bearing field (arguments before body, in evaluation order) and then calls
visit_<kind> once with exactly those results; V3 descend_into_nodelist keeps one
result per element in order (None placeholder for None); V4 package subclasses
overriding node_standard_process_* still pass every child-bearing field on."""
import ast
from .. import symex
from ..core import (AnalysisError, short, unparse, iter_own, call_name, call_recv, kwarg,
                    is_self_attr, parents, enclosing_stmt, const_value)

NODES = 'pylatexenc.latexnodes.nodes'
PARGS = 'pylatexenc.latexnodes._parsedargs'
RECOMP = 'pylatexenc.latexnodes._latex_recomposer'

CHILD_FIELDS = ('nodeargd', 'nodelist', 'argnlist')   # order = arguments before body
# kind -> (visit method, {field: keyword of visit call})
KW = {'nodeargd': 'visited_results_arguments', 'argnlist': 'visited_results_argnlist'}

EXPLANATION = (
    "Structural induction on tree height.  V1: accept_node_visitor of every concrete node class "
    "dispatches to exactly one node_standard_process_<kind> of the visitor.  V2: that method "
    "evaluates, outside loops and conditionals and in the order arguments -> body, exactly one "
    "descend call per child-bearing field of the class, and afterwards exactly one "
    "visit_<kind>(node, visited_results_*=<those results>).  V3: descend_into_nodelist visits "
    "each non-None element once, in list order, and yields one result per element (None for "
    "None); descend_into_parsed_arguments dispatches the arguments object once.  By the "
    "induction hypothesis every descendant has been visited exactly once, children first, "
    "before the parent's visit call; so the same holds for the parent.")


def _pos(n):
    return (n.lineno, n.col_offset)


def run(ctx):
    repo = ctx.repo
    m = repo.mod(NODES)
    pa = repo.mod(PARGS)
    vis = m.methods('LatexNodesVisitor')

    ctx.rule('V1', 'every concrete node class (and LatexNodeList, ParsedArguments) overrides '
                   'accept_node_visitor with a single return of visitor.node_standard_process_<kind>'
                   '(self), kinds distinct and defined on LatexNodesVisitor', 9)
    ctx.rule('V2', 'node_standard_process_<kind>: exactly one descend call per child-bearing field '
                   'of the class, arguments before body in evaluation order, unconditional; then '
                   'one return self.visit_<kind>(node, visited_results_*=those results)', 10)
    ctx.rule('V3', 'descend_into_nodelist yields exactly one result per element in list order: '
                   'accept_node_visitor(self) for a node, None for None; '
                   'descend_into_parsed_arguments dispatches the object once', 3)
    ctx.rule('V4', 'package visitors overriding node_standard_process_<kind> hand every '
                   'child-bearing field of the node to their own processing', 5)
    ctx.rule('V5', 'visit_<kind> defaults forward (node, **kwargs) to visit(); start() dispatches '
                   'through accept_node_visitor', 9)

    # ---- classes and their child-bearing fields
    classes = {}
    for q, c in list(m.classes.items()) + list(pa.classes.items()):
        if '.' in q:
            continue
        meth = {n.name: n for n in c.body if isinstance(n, ast.FunctionDef)}
        if 'accept_node_visitor' not in meth:
            continue
        classes[q] = (c, meth, m if q in m.classes else pa)
    if len(classes) < 9:
        raise AnalysisError('only %d classes with accept_node_visitor found' % len(classes))

    kind_of = {}
    for q, (c, meth, mod) in sorted(classes.items()):
        f = meth['accept_node_visitor']
        body = [s for s in f.body if not (isinstance(s, ast.Expr) and isinstance(s.value, ast.Constant))]
        ok = False
        kind = None
        # every returning path returns (locals and bound-method aliases expanded) one and the same dispatch call,
        # and nothing else is called on the way
        call = None
        try:
            rcs = [c_ for c_ in symex.Walker(want_returns=True).run(f) if c_.kind == 'return']
        except symex.TooManyPaths:
            rcs = []
        vals = {unparse(_expand_call(c_.sub, c_.env)) for c_ in rcs}
        othercalls = [c_ for c_ in iter_own(f) if isinstance(c_, ast.Call)]
        if len(vals) == 1 and rcs and len(othercalls) == 1:
            v0 = _expand_call(rcs[0].sub, rcs[0].env)
            if isinstance(v0, ast.Call):
                call = v0
        if call is not None:
            vparam = f.args.args[1].arg if len(f.args.args) > 1 else None
            if isinstance(call.func, ast.Attribute) and unparse(call.func.value) == vparam and \
                    call.func.attr.startswith('node_standard_process_') and \
                    len(call.args) == 1 and unparse(call.args[0]) == 'self' and not call.keywords:
                kind = call.func.attr[len('node_standard_process_'):]
                ok = call.func.attr in vis
        ctx.decide('V1', ok, mod, f, 'dispatches to node_standard_process_%s(self)' % kind,
                   'accept_node_visitor of %s is not a single dispatch to an existing '
                   'node_standard_process_<kind>(self): %s' % (q, short(f.body[-1])),
                   construct='%s.accept_node_visitor' % q)
        if kind:
            kind_of[q] = kind
    dup = [k for k in set(kind_of.values()) if list(kind_of.values()).count(k) > 1]
    ctx.decide('V1', not dup, m, m.cls('LatexNodesVisitor'),
               'kinds are pairwise distinct: %s' % sorted(kind_of.values()),
               'two classes dispatch to the same kind %s' % dup, construct='distinct kinds')

    # overrides outside the two reviewed modules (subclasses of the node / parsed-arguments classes)
    n_ov = 0
    for mn_, mod_ in sorted(ctx.repo.modules.items()):
        if mod_ is m or mod_ is pa:
            continue
        for q_, f_ in sorted(mod_.functions.items()):
            if not q_.endswith('.accept_node_visitor'):
                continue
            n_ov += 1
            body_ = [b_ for b_ in f_.body if not (isinstance(b_, ast.Expr) and isinstance(b_.value, ast.Constant))]
            okov = len(body_) == 1 and isinstance(body_[0], ast.Return) and isinstance(body_[0].value, ast.Call) and (
                (call_name(body_[0].value).startswith('node_standard_process_') and len(body_[0].value.args) == 1
                 and unparse(body_[0].value.args[0]) == 'self') or
                (call_name(body_[0].value) == 'accept_node_visitor' and 'super' in unparse(body_[0].value.func)))
            ctx.decide('V1', okov, mod_, f_, '%s delegates to the standard dispatch' % q_,
                       '%s overrides accept_node_visitor with its own traversal instead of the single dispatch to '
                       'visitor.node_standard_process_<kind>(self): the children the standard dispatch descends into (every entry '
                       'of argnlist, None for an absent argument) are not all visited, or are visited in another shape -- '
                       'a visitor sees the arguments of such a construct not at all or not one result per argument'
                       % q_, construct='%s' % q_)
    ctx.holds('V1', m, None, '%d override(s) of accept_node_visitor outside nodes.py / _parsedargs.py' % n_ov,
              construct='overrides elsewhere', trivial=True)

    # child-bearing fields per class, from the _fields declaration
    fields_of = {}
    for q, (c, meth, mod) in classes.items():
        flds = None
        for n in ast.walk(c):
            if isinstance(n, ast.keyword) and n.arg == '_fields' and isinstance(n.value, (ast.Tuple, ast.List)):
                flds = [const_value(e) for e in n.value.elts]
            if isinstance(n, ast.Assign) and isinstance(n.targets[0], ast.Name) and \
                    n.targets[0].id == '_fields' and isinstance(n.value, (ast.Tuple, ast.List)) and flds is None:
                flds = [const_value(e) for e in n.value.elts]
        if q == 'ParsedArguments' and flds is None:
            flds = ['argnlist']
        if flds is None:
            flds = []
        if q == 'ParsedArguments' and 'argnlist' not in flds:
            flds = flds + ['argnlist']
        fields_of[q] = [f for f in CHILD_FIELDS if f in flds]
    ctx.analysed['child_bearing_fields'] = {q: fields_of[q] for q in sorted(fields_of)}

    visit_name = {'unknown': 'visit_unknown_node', 'chars': 'visit_chars_node',
                  'group': 'visit_group_node', 'comment': 'visit_comment_node',
                  'macro': 'visit_macro_node', 'environment': 'visit_environment_node',
                  'specials': 'visit_specials_node', 'math': 'visit_math_node',
                  'list': 'visit_node_list', 'parsed_arguments': 'visit_parsed_arguments'}

    # ---- V2
    for q, kind in sorted(kind_of.items()):
        fn = vis.get('node_standard_process_' + kind)
        if fn is None:
            continue
        _check_process(ctx, m, fn, q, kind, fields_of[q], visit_name.get(kind), vis)

    # ---- V3
    dn = vis.get('descend_into_nodelist')
    dp = vis.get('descend_into_parsed_arguments')
    if dn is None or dp is None:
        raise AnalysisError('anchor vanished: descend_into_nodelist/descend_into_parsed_arguments')
    _check_descend(ctx, m, dn)
    calls = [c for c in iter_own(dp) if isinstance(c, ast.Call) and call_name(c) == 'accept_node_visitor']
    p = dp.args.args[1].arg
    okdp = len(calls) == 1 and unparse(call_recv(calls[0])) == p and \
        [unparse(a) for a in calls[0].args] == ['self'] and \
        isinstance(enclosing_stmt(calls[0]), ast.Return) and \
        not any(isinstance(x, (ast.For, ast.While)) for x in parents(calls[0]))
    ctx.decide('V3', okdp, m, dp, 'dispatches the arguments object exactly once',
               'descend_into_parsed_arguments does not dispatch its argument exactly once',
               construct='descend_into_parsed_arguments')

    # ---- V5
    for kind, vname in sorted(visit_name.items()):
        f = vis.get(vname)
        if f is None:
            ctx.refuted('V5', m, m.cls('LatexNodesVisitor'), 'visitor lacks ' + vname,
                        construct=vname)
            continue
        body = [s for s in f.body if not (isinstance(s, ast.Expr) and isinstance(s.value, ast.Constant))]
        ok = len(body) == 1 and isinstance(body[0], ast.Return) and \
            isinstance(body[0].value, ast.Call) and unparse(body[0].value.func) == 'self.visit' and \
            [unparse(a) for a in body[0].value.args] == [f.args.args[1].arg] and \
            any(k.arg is None for k in body[0].value.keywords)
        ctx.decide('V5', ok, m, f, 'forwards (node, **kwargs) to visit()',
                   '%s does not forward its node and keyword results to visit()' % vname,
                   construct=vname)
    st = vis.get('start')
    ok = st is not None and any(isinstance(c, ast.Call) and call_name(c) == 'accept_node_visitor'
                                and [unparse(a) for a in c.args] == ['self'] for c in iter_own(st))
    ctx.decide('V5', ok, m, st or m.cls('LatexNodesVisitor'), 'start() dispatches the root',
               'start() does not call node.accept_node_visitor(self)', construct='start')

    # ---- V4 subclasses in the package
    for mod in repo.modules.values():
        for q, c in mod.classes.items():
            if c.name == 'LatexNodesVisitor' or not repo.is_subclass(c.name, 'LatexNodesVisitor'):
                continue
            for n in c.body:
                if isinstance(n, ast.FunctionDef) and n.name.startswith('node_standard_process_'):
                    kind = n.name[len('node_standard_process_'):]
                    cls_for = [k for k, v in kind_of.items() if v == kind]
                    if not cls_for:
                        continue
                    need = fields_of[cls_for[0]]
                    p = n.args.args[1].arg
                    used = {a.attr for a in ast.walk(n) if isinstance(a, ast.Attribute)
                            and unparse(a.value) == p}
                    passes_whole = any(isinstance(a, ast.Call) and any(
                        isinstance(x, ast.Name) and x.id == p for x in a.args) for a in ast.walk(n))
                    missing = [f for f in need if f not in used]
                    ctx.decide('V4', not missing or (kind == 'parsed_arguments' and passes_whole),
                               mod, n, 'passes on %s' % (need or 'no child field'),
                               '%s.%s ignores child-bearing field(s) %s of the node: those '
                               'children are never processed' % (c.name, n.name, missing),
                               construct='%s.%s' % (c.name, n.name))
    ctx.assume('user subclasses that override node_standard_process_* are outside the rule; '
               'Python evaluates call arguments and keyword arguments left to right')
    # ---- V2 (results unchanged): a callback's result is data, never a truth value
    n_bo = 0
    for q_, f_ in sorted(m.functions.items()):
        if not (q_.startswith('LatexNodesVisitor.') or q_.endswith('.accept_node_visitor')):
            continue
        for b_ in iter_own(f_):
            if isinstance(b_, (ast.BoolOp, ast.IfExp)):
                parts = b_.values if isinstance(b_, ast.BoolOp) else [b_.test]
                calls = [c_ for v_ in parts for c_ in ast.walk(v_) if isinstance(c_, ast.Call) and (
                    call_name(c_) == 'accept_node_visitor' or call_name(c_).startswith('visit')
                    or call_name(c_).startswith('descend_into') or call_name(c_).startswith('node_standard_process'))]
                if calls:
                    n_bo += 1
                    ctx.refuted('V2', m, enclosing_stmt(b_) or b_, '%s uses the result of %s as a truth value (%s): a falsy '
                                'result of the callback (None, 0, [], \'\') is replaced by another value before the '
                                'parent receives it' % (q_, short(calls[0], 40), short(b_, 70)),
                                construct='%s: result used as truth value' % q_)
    ctx.holds('V2', m, None, 'no visit result is used as a truth value in the visitor', construct='truth-value scan',
              trivial=True)

    # ---- V6 (C09 R09c): argument lists are not shared between nodes
    # ---- V8: a tree object has one place in the tree
    ctx.rule('V8', 'objects of the tree (nodes, node lists, ParsedArguments) are created where they are attached: no module-level '
                   'instance of one of these classes is returned or attached by parser code, so no object is reachable from two '
                   'parents (a shared object would be visited once per parent)', 0)
    tree_classes = set(kind_of) | {'ParsedArguments', 'LatexNodeList', 'ParsedMacroArgs', 'ParsedArgumentsInfo'}
    n_shared = 0
    for mod in sorted(repo.modules.values(), key=lambda m_: m_.name):
        if mod.name.endswith('__main__'):
            continue
        singles = {}
        for st_ in mod.tree.body:
            if isinstance(st_, ast.Assign) and len(st_.targets) == 1 and isinstance(st_.targets[0], ast.Name) and \
                    isinstance(st_.value, ast.Call) and call_name(st_.value) in tree_classes:
                singles[st_.targets[0].id] = st_
        if not singles:
            continue
        for q_, f_ in sorted(mod.functions.items()):
            bound = {a_.arg for a_ in f_.args.args} | {t_.id for x_ in iter_own(f_) if isinstance(x_, ast.Assign)
                                                      for t_ in x_.targets if isinstance(t_, ast.Name)}
            for n_ in iter_own(f_):
                if isinstance(n_, ast.Name) and isinstance(n_.ctx, ast.Load) and n_.id in singles and n_.id not in bound:
                    par_ = getattr(n_, '_parent', None)
                    if isinstance(par_, ast.Compare):
                        continue        # identity / equality tests do not attach it
                    n_shared += 1
                    ctx.refuted('V8', mod, n_, '%s uses the module-level %s object %s (created once at line %d) as part of what it '
                                'builds or returns: the same object ends up under several parents of one tree (every macro read '
                                'as a single-token argument shares it), and a visitor started on the tree processes it once per '
                                'parent instead of exactly once' % (q_, call_name(singles[n_.id].value), n_.id, singles[n_.id].lineno),
                                construct='%s: shared %s' % (q_, n_.id))
    ctx.holds('V8', m, None, 'no module-level instance of a tree class is handed out by a function', construct='shared tree objects',
              trivial=True)

    ctx.rule('V6', 'no mutable default argument value is changed in place or stored: the argument list of one node never '
                   'accumulates the nodes of another (a visitor would see nodes of other documents) (C09 R09c)', 4)
    from . import c09 as _c09, c05 as _c05
    _c09._mutable_defaults(_c05._Sub(ctx, 'V6'), repo)

    # ---- V4 (hooks of the recomposing visitor): children handed over undescended are descended on every path
    rm_ = repo.mod('pylatexenc.latexnodes._latex_recomposer')
    n_hk = 0
    for q_, f_ in sorted(rm_.functions.items()):
        if not (q_.startswith('LatexNodesLatexRecomposer.recompose_')):
            continue
        ch_ = [a_.arg for a_ in f_.args.args if a_.arg in ('nodelist', 'parsed_arguments')]
        if not ch_:
            continue
        n_hk += 1
        try:
            hcs = symex.Walker(want_returns=True, trace=True, is_sink=lambda c_: isinstance(c_.func, ast.Attribute)
                               and isinstance(c_.func.value, ast.Name) and c_.func.value.id == 'self').run(f_)
        except symex.TooManyPaths:
            ctx.unknown('V4', rm_, f_, 'too many paths', construct=q_ + ': descends')
            continue
        bad_ = None
        for cs in [c for c in hcs if c.kind == 'return']:
            desc = [t_ for t_ in cs.env.get('#trace', ()) if isinstance(t_[0], ast.Call) and any(
                isinstance(x_, ast.Name) and x_.id in ch_
                for a_ in list((t_[1] or t_[0]).args) + [k_.value for k_ in (t_[1] or t_[0]).keywords]
                for x_ in ast.walk(a_))]
            if not desc and bad_ is None:
                bad_ = cs
        ctx.decide('V4', bad_ is None, rm_, bad_.node if bad_ else f_,
                   '%s hands its children (%s) on to a descending call on every path' % (q_, ', '.join(ch_)),
                   '%s returns on the path [%s] without handing %s to any descending call: the nodes in it are never '
                   'visited (a visitor derived from the recomposer does not see the chars node of a \\verb argument)'
                   % (q_, ' & '.join(bad_.cond_src())[-100:] if bad_ else '', ', '.join(ch_)), construct=q_ + ': descends')
    if n_hk == 0:
        ctx.unknown('V4', rm_, None, 'no recompose_* hook found', construct='recomposer hooks')

    # ---- V7 (C02 R02c): one argument slot per declared argument
    ctx.rule('V7', 'the arguments parser produces exactly one slot (a node or the None placeholder) per declared argument, in '
                   'order, on every path: the parent receives one result per declared argument (C02 R02c)', 1)
    from . import c02 as _c02
    from .. import core as _core
    _core.run_proxied(ctx, _c02, 'V7', ('R02c',))

    return 'proof', EXPLANATION


def _descend_calls(fn):
    out = []
    for c in iter_own(fn):
        if isinstance(c, ast.Call) and is_self_attr(c.func) and \
                c.func.attr in ('descend_into_nodelist', 'descend_into_parsed_arguments'):
            out.append(c)
    return sorted(out, key=_pos)


def _field_of(arg, p, fn):
    """which attribute of the node parameter p an argument stands for (directly, or through a
    local bound once to p.<field>)"""
    if isinstance(arg, ast.Attribute) and unparse(arg.value) == p:
        return arg.attr
    if isinstance(arg, ast.Name):
        defs = [s_.value for s_ in iter_own(fn) if isinstance(s_, ast.Assign) and any(
            isinstance(t_, ast.Name) and t_.id == arg.id for t_ in s_.targets)]
        if len(defs) == 1:
            return _field_of(defs[0], p, fn)
    return None


def _helper_of(call, vis, p):
    """(helper function, its node parameter) if `call` is self.<private helper>(p, ...) of the
    visitor class that itself descends"""
    if not (isinstance(call, ast.Call) and is_self_attr(call.func) and call.func.attr.startswith('_')
            and call.func.attr in vis and call.args and unparse(call.args[0]) == p):
        return None
    h = vis[call.func.attr]
    if not _descend_calls(h):
        return None
    return h, h.args.args[1].arg


def _check_process(ctx, m, fn, q, kind, fields, vname, vis):
    p = fn.args.args[1].arg
    dcalls = _descend_calls(fn)
    rets = [s for s in iter_own(fn) if isinstance(s, ast.Return)]
    label = 'node_standard_process_' + kind
    # unconditional: no descend call or return inside if/loop/try
    cond = [c for c in dcalls + rets if any(isinstance(x, (ast.If, ast.For, ast.While, ast.Try,
                                                           ast.IfExp, ast.BoolOp, ast.ListComp,
                                                           ast.GeneratorExp))
                                            for x in parents(c) if x is not fn
                                            and _inside(x, fn))]
    # which field does each descend call take?  (descend calls of a private helper that is
    # called with the node are counted at the position of that call)
    seen = []
    result_of = {}       # id(expression in fn that carries the result) -> field
    calls_in_order = sorted([c for c in iter_own(fn) if isinstance(c, ast.Call)], key=_pos)
    for c in calls_in_order:
        if c in dcalls:
            fld = _field_of(c.args[0], p, fn) if c.args else None
            seen.append((fld, c.func.attr, c))
            result_of[id(c)] = fld
            continue
        hh = _helper_of(c, vis, p)
        if hh is not None:
            h, hp = hh
            hcond = [x for x in _descend_calls(h) if any(isinstance(y, (ast.If, ast.For, ast.While, ast.Try,
                                                                      ast.IfExp, ast.BoolOp))
                                                       for y in parents(x) if y is not h and _inside(y, h))]
            cond += hcond
            hseen = []
            for hc in _descend_calls(h):
                fld = _field_of(hc.args[0], hp, h) if hc.args else None
                seen.append((fld, hc.func.attr, hc))
                hseen.append((fld, hc))
            # what the helper returns: a tuple of descend results -> item i carries field f
            hrets = [r_ for r_ in iter_own(h) if isinstance(r_, ast.Return) and r_.value is not None]
            if len(hrets) == 1:
                elts = hrets[0].value.elts if isinstance(hrets[0].value, ast.Tuple) else [hrets[0].value]
                hlocal = {}
                for s_ in iter_own(h):
                    if isinstance(s_, ast.Assign) and len(s_.targets) == 1 and isinstance(s_.targets[0], ast.Name):
                        hlocal[s_.targets[0].id] = s_.value
                flds = []
                for e_ in elts:
                    src = hlocal.get(e_.id) if isinstance(e_, ast.Name) else e_
                    flds.append(next((f_ for f_, hc in hseen if hc is src), None))
                result_of[id(c)] = tuple(flds)
    got = [f for f, h, c in seen]
    ok_fields = got == fields
    why = ''
    if sorted(x or '?' for x in got) == sorted(fields) and got != fields:
        why = ('children are visited in the order %s but the documented order is %s (arguments '
               'before body)' % (got, fields))
    elif not ok_fields:
        why = ('descends into %s but the child-bearing fields of %s are %s: %s'
               % (got, q, fields, 'some children are never visited' if len(got) < len(fields)
                  else 'children are visited more than once or from the wrong field'))
    ctx.decide('V2', ok_fields and not cond, m, fn,
               'descends exactly once into each of %s, in that order, unconditionally' % fields,
               why or 'descend call or return is conditional: %s' % [short(c) for c in cond],
               construct=label + ': descend calls')
    # helper kind per field
    for fld, helper, c in seen:
        want = 'descend_into_parsed_arguments' if fld == 'nodeargd' else 'descend_into_nodelist'
        if fld in fields:
            ctx.decide('V2', helper == want, m, c, '%s via %s' % (fld, helper),
                       'field %s is descended with %s (a %s is expected there)' % (
                           fld, helper, 'ParsedArguments object' if fld == 'nodeargd' else 'list'),
                       construct='%s: %s' % (label, short(c)))
    # the visit call
    if vname is None:
        return
    vcalls = [c for c in iter_own(fn) if isinstance(c, ast.Call) and is_self_attr(c.func)
              and c.func.attr.startswith('visit')]
    ok_v = len(vcalls) == 1 and vcalls[0].func.attr == vname and len(rets) == 1 and \
        rets[0].value is vcalls[0] and [unparse(a) for a in vcalls[0].args] == [p]
    ctx.decide('V2', ok_v, m, fn, 'single `return self.%s(%s, ...)`' % (vname, p),
               '%s does not end with exactly one `return self.%s(%s, ...)` (found %s)'
               % (label, vname, p, [short(c.func) for c in vcalls]),
               construct=label + ': visit call')
    if len(vcalls) != 1:
        return
    vc = vcalls[0]
    # what the callback receives is the object that was dispatched, not something the name was re-bound to
    try:
        vcs = symex.Walker(is_sink=lambda c_: c_ is vc).run(fn)
    except symex.TooManyPaths:
        vcs = []
    rebound = [cs for cs in vcs if cs.sub.args and unparse(cs.sub.args[0]) != p]
    if vcs:
        ctx.decide('V2', not rebound, m, vc, 'self.%s receives the dispatched object itself' % vname,
                   '%s hands %s to self.%s, not the object it was called for (`%s` was re-bound before the call): the callback '
                   'sees a different object (a bare Python list instead of the LatexNodeList of the tree) than the one the '
                   'traversal reached' % (label, short(rebound[0].sub.args[0], 40) if rebound else '', vname, p),
                   construct=label + ': visited object')
    # every descend result must reach the visit call under the documented keyword, and
    # the visit call must come after all descend calls in evaluation order
    local_src = {}
    for s in iter_own(fn):
        if isinstance(s, ast.Assign) and len(s.targets) == 1 and isinstance(s.targets[0], ast.Name):
            local_src[s.targets[0].id] = s.value
    for fld, helper, c in seen:
        if fld not in fields:
            continue
        want_kw = KW.get(fld)
        if fld == 'nodelist':
            want_kw = 'visited_results_body' if kind == 'environment' else 'visited_results_nodelist'
        val = _kw_value(fn, vc, want_kw)
        ok = False
        if val is not None:
            if result_of.get(id(val)) == fld:
                ok = True
            elif isinstance(val, ast.Name):
                src = local_src.get(val.id)
                if src is not None and result_of.get(id(src)) == fld:
                    ok = True
                else:
                    # bound by tuple-unpacking the result of a helper: position i of the targets
                    for s_ in iter_own(fn):
                        if isinstance(s_, ast.Assign) and isinstance(s_.targets[0], (ast.Tuple, ast.List)):
                            names_ = [unparse(t_) for t_ in s_.targets[0].elts]
                            rr = result_of.get(id(s_.value))
                            if val.id in names_ and isinstance(rr, tuple) and len(rr) == len(names_) \
                                    and rr[names_.index(val.id)] == fld:
                                ok = True
        ctx.decide('V2', ok, m, vc, 'result of descending into %s passed as %s' % (fld, want_kw),
                   'the results of the children in %s do not reach %s(..., %s=...): the parent '
                   'gets missing or foreign child results' % (fld, vname, want_kw),
                   construct='%s: %s=' % (label, want_kw))
    extra = [k.arg for k in vc.keywords if k.arg and k.arg.startswith('visited_results_')] + [
        k_ for k_ in _starred_keys(fn, vc) if k_.startswith('visited_results_')]
    ctx.decide('V2', len(extra) == len(fields), m, vc,
               '%d result keyword(s) for %d child-bearing field(s)' % (len(extra), len(fields)),
               'visit call passes result keywords %s for fields %s' % (extra, fields),
               construct=label + ': result keywords', trivial=True)


def _expand_call(v, env):
    """the returned value with locals replaced by their definitions, including a local bound to a bound method
    (`fn = visitor.m; r = fn(self); return r`)"""
    full = symex.expand(v, env)
    if isinstance(full, ast.Call) and isinstance(full.func, ast.Name):
        d = env.get(full.func.id)
        if d is None:
            d = env.get('#def', {}).get(full.func.id)
        if isinstance(d, ast.AST):
            full = ast.Call(func=symex.expand(d, env), args=full.args, keywords=full.keywords)
    return full


def _starred_dicts(fn, call):
    """{key: value expression} for every `**name` argument of `call` whose name is a local dict of `fn` built by a
    display / dict(k=v) and `name['k'] = v` stores (later stores win)"""
    out = {}
    for k in call.keywords:
        if k.arg is not None or not isinstance(k.value, ast.Name):
            continue
        nm = k.value.id
        for s_ in sorted([x for x in iter_own(fn) if isinstance(x, ast.Assign)], key=_pos):
            for t_ in s_.targets:
                if isinstance(t_, ast.Name) and t_.id == nm:
                    if isinstance(s_.value, ast.Dict):
                        for kk, vv in zip(s_.value.keys, s_.value.values):
                            if isinstance(kk, ast.Constant):
                                out[kk.value] = vv
                    elif isinstance(s_.value, ast.Call) and call_name(s_.value) == 'dict':
                        for kw_ in s_.value.keywords:
                            if kw_.arg:
                                out[kw_.arg] = kw_.value
                elif isinstance(t_, ast.Subscript) and isinstance(t_.value, ast.Name) and t_.value.id == nm and \
                        isinstance(t_.slice, ast.Constant):
                    out[t_.slice.value] = s_.value
    return out


def _starred_keys(fn, call):
    return list(_starred_dicts(fn, call))


def _kw_value(fn, call, name):
    v = kwarg(call, name)
    if v is not None:
        return v
    return _starred_dicts(fn, call).get(name)


def _inside(x, fn):
    return any(p is fn for p in parents(x))


def _check_descend(ctx, m, fn):
    p = fn.args.args[1].arg
    loops = [n for n in iter_own(fn) if isinstance(n, (ast.For, ast.While))]
    comps = [n for n in iter_own(fn) if isinstance(n, (ast.ListComp, ast.GeneratorExp))]
    label = 'descend_into_nodelist'
    # the children are visited when descend_* is called, not when (and if) the parent looks at the
    # results: a returned iterator (map, filter, zip, generator expression) defers or loses the visits
    lazy = [r for r in iter_own(fn) if isinstance(r, ast.Return) and r.value is not None and (
        isinstance(r.value, ast.GeneratorExp) or (
            isinstance(r.value, ast.Call) and isinstance(r.value.func, ast.Name)
            and r.value.func.id in ('map', 'filter', 'zip', 'iter', 'reversed', 'imap')))]
    if lazy:
        ctx.refuted('V3', m, lazy[0], 'descend_into_nodelist returns the lazy iterator %s: the children are visited only '
                    'when the parent callback iterates over its results -- after the parent has been entered, or '
                    'never -- and the parent receives an iterator instead of the list of results'
                    % short(lazy[0].value, 60), construct=label + ': eager results')
        return
    ctx.holds('V3', m, fn, 'results are collected before returning (no iterator is returned)',
              construct=label + ': eager results', trivial=True)
    # what is handed back is the list of child results (or the default for a missing list): never the
    # result of another dispatch on the list as a whole
    for r_ in [x for x in iter_own(fn) if isinstance(x, ast.Return) and x.value is not None]:
        v_ = r_.value
        plain = isinstance(v_, (ast.Name, ast.List, ast.ListComp, ast.Constant)) or (
            isinstance(v_, ast.Call) and isinstance(v_.func, ast.Name) and v_.func.id == 'list')
        ctx.decide('V3', plain, m, r_, 'returns the collected results / the default: ' + short(v_, 40),
                   'descend_into_nodelist returns %s instead of the list of its children\'s results: the parent receives '
                   'one value for the whole list (an extra callback is made for every body) rather than one result per '
                   'child in order' % short(v_, 60), construct=label + ': ' + short(r_, 50), trivial=True)
    if len(loops) == 1 and isinstance(loops[0], ast.For) and not comps:
        lp = loops[0]
        ok_iter = unparse(lp.iter) == p
        v = lp.target.id if isinstance(lp.target, ast.Name) else None
        early = [n for n in ast.walk(lp) if isinstance(n, (ast.Break, ast.Continue, ast.Return))]
        # appends per path: exactly one append on each branch
        res = None
        n_paths, ok_paths = _append_paths(lp.body, v)
        acc = _append_target(lp)
        ret_ok = any(isinstance(r, ast.Return) and isinstance(r.value, ast.Name)
                     and r.value.id == acc for r in fn.body)
        ctx.decide('V3', ok_iter and not early and ok_paths and ret_ok and not lp.orelse, m, fn,
                   'one loop over the list, exactly one append per element on every path '
                   '(%d paths), result list returned' % n_paths,
                   'the loop does not append exactly one result per element of %s in order '
                   '(iterates %s, early exits: %d, one-append-per-path: %s, returns accumulator: '
                   '%s): placeholders or nodes are dropped / visited out of order'
                   % (p, short(lp.iter), len(early), ok_paths, ret_ok),
                   construct=label + ': loop shape')
    elif len(comps) == 1 and not loops:
        c = comps[0]
        g = c.generators[0]
        v = g.target.id if isinstance(g.target, ast.Name) else None
        ok = len(c.generators) == 1 and unparse(g.iter) == p and not g.ifs
        e = c.elt
        elt_ok = isinstance(e, ast.IfExp) and _is_accept(e.body, v) and \
            isinstance(e.orelse, ast.Constant) and e.orelse.value is None and \
            unparse(e.test) in ('%s is not None' % v,)
        elt_ok = elt_ok or (isinstance(e, ast.IfExp) and _is_accept(e.orelse, v) and
                            isinstance(e.body, ast.Constant) and e.body.value is None and
                            unparse(e.test) == '%s is None' % v)
        ctx.decide('V3', ok and elt_ok, m, fn,
                   'comprehension with one result per element (None placeholder kept)',
                   'the comprehension %s does not yield one result per element of %s (filter: '
                   '%s): None placeholders of absent arguments are dropped or elements skipped'
                   % (short(c), p, [short(i) for i in g.ifs]),
                   construct=label + ': comprehension shape')
    else:
        ctx.unknown('V3', m, fn, 'neither a single for-loop nor a single comprehension',
                    construct=label + ': shape')
    # the None-list default: an identity test; an empty list is a list (its result is [], not the default)
    from . import gcommon
    tt = [t for t, wh in gcommon.truthiness_tests(fn)
          if unparse(t.operand if isinstance(t, ast.UnaryOp) and isinstance(t.op, ast.Not) else t) == p]
    if tt:
        ctx.refuted('V3', m, tt[0], 'the node list parameter %s is tested by truthiness: an EMPTY list (math with '
                    'an empty body, a call without arguments) takes the "no list" path and the parent '
                    'receives the default (None) instead of []' % p, construct=label + ': None list')
    ctx.holds('V3', m, fn, 'list None handled before the loop' if any(
        isinstance(s, ast.If) and unparse(s.test) == p + ' is None' for s in fn.body)
        else 'no None guard (callers pass lists)', construct=label + ': None list', trivial=True)


def _is_accept(e, v):
    return isinstance(e, ast.Call) and call_name(e) == 'accept_node_visitor' and \
        unparse(call_recv(e)) == v and [unparse(a) for a in e.args] == ['self']


def _append_target(loop):
    for n in ast.walk(loop):
        if isinstance(n, ast.Call) and call_name(n) == 'append':
            return unparse(call_recv(n))
    return None


def _append_paths(stmts, v):
    """(number of paths, every path performs exactly one append whose argument is
    either v.accept_node_visitor(self) under `v is not None`, or None under `v is None`)."""
    paths = [[]]
    ok = [True]

    def walk(stmts, facts):
        results = [[]]
        for s in stmts:
            if isinstance(s, ast.If):
                t = unparse(s.test)
                a = walk(s.body, facts + [(t, True)])
                b = walk(s.orelse, facts + [(t, False)])
                results = [r + x for r in results for x in (a + b)]
            elif isinstance(s, ast.Expr) and isinstance(s.value, ast.Call) and \
                    call_name(s.value) == 'append':
                arg = s.value.args[0]
                results = [r + [(arg, list(facts))] for r in results]
            elif isinstance(s, (ast.Expr, ast.Assign, ast.Pass)):
                continue
            else:
                ok[0] = False
        return results

    res = walk(stmts, [])
    for path in res:
        if len(path) != 1:
            return len(res), False
        arg, facts = path[0]
        notnone = ('%s is not None' % v, True) in facts or ('%s is None' % v, False) in facts
        isnone = ('%s is None' % v, True) in facts or ('%s is not None' % v, False) in facts
        if _is_accept(arg, v) and notnone:
            continue
        if isinstance(arg, ast.Constant) and arg.value is None and isnone:
            continue
        return len(res), False
    return len(res), ok[0]
