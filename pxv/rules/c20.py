# -*- coding: utf-8 -*-
"""C20  Positions map to the right line and column, also in error reports.

R20a  errors are annotated from their own position, and position 0 is a position
      (no truthiness test on a position value);
R20b  the walker stores its three offsets and forwards each under its own name;
R20c  in pos_to_lineno_colno the column is pos - T[i] with the same raw index i
      that yields the line; the first-line offset is chosen by testing that raw
      index against 0 before any offset is added; results are returned in the
      documented order / under the documented keys.
"""
import ast
from ..core import (AnalysisError, short, unparse, iter_own, call_name, call_recv, kwarg,
                    is_self_attr, atomic_facts, parents, enclosing_stmt, const_value)
from . import gcommon

UTIL = 'pylatexenc._util'
WALKER = 'pylatexenc.latexwalker._walker'


def run(ctx):
    repo = ctx.repo
    u = repo.mod(UTIL)
    w = repo.mod(WALKER)
    ctx.rule('R20a', 'parse errors leaving parse_content get lineno/colno from '
                     'pos_to_lineno_colno(<their own pos>), under a guard that does not exclude '
                     'position 0', 2)
    ctx.rule('R20b', 'LatexWalker stores line_number_offset / first_line_column_offset / '
                     'column_offset from the like-named option (defaults 1, 0, 0) and forwards '
                     'each to LineNumbersCalculator under its own name; the calculator stores them '
                     'unchanged', 9)
    ctx.rule('R20c', 'pos_to_lineno_colno: i = bisect_right(T, pos) - 1; col = pos - T[i]; '
                     'first_line_column_offset iff raw i == 0 else column_offset; line = i + '
                     'line_number_offset; returned as (line, col) / {lineno, colno}', 6)
    ctx.rule('G9', 'a position value (pos, epos, pos_end, ...) is never tested by truthiness: 0 is '
                   'a valid position and must not be treated like None', 1)

    # ------------------------------------------------------------ R20c
    lnc = u.methods('LineNumbersCalculator')
    f = lnc.get('pos_to_lineno_colno')
    init = lnc.get('__init__')
    if f is None or init is None:
        raise AnalysisError('anchor vanished: LineNumbersCalculator.pos_to_lineno_colno/__init__')
    pos = f.args.args[1].arg
    stmts = [s for s in iter_own(f) if isinstance(s, ast.stmt)]
    stmts.sort(key=lambda s: (s.lineno, s.col_offset))
    # locate: index definition
    idx_def = None
    for s in stmts:
        if isinstance(s, ast.Assign) and isinstance(s.value, ast.BinOp) and \
                isinstance(s.value.op, ast.Sub) and isinstance(s.value.left, ast.Call) and \
                call_name(s.value.left) in ('bisect_right', 'bisect') and \
                isinstance(s.value.right, ast.Constant) and s.value.right.value == 1:
            idx_def = s
    if idx_def is None:
        ctx.unknown('R20c', u, f, 'index definition `bisect_right(T, pos) - 1` not found',
                    construct='line index')
        return 'other', _expl()
    ivar = idx_def.targets[0].id
    bis = idx_def.value.left
    table = unparse(bis.args[0])
    ok_bis = len(bis.args) == 2 and unparse(bis.args[1]) == pos
    ctx.decide('R20c', ok_bis, u, idx_def, 'index = bisect_right(%s, %s) - 1' % (table, pos),
               'line index is not computed from the queried position', construct='line index: '
               + short(idx_def))
    # column definition
    col_def = None
    for s in stmts:
        if isinstance(s, ast.Assign) and isinstance(s.value, ast.BinOp) and \
                isinstance(s.value.op, ast.Sub) and unparse(s.value.left) == pos and \
                isinstance(s.value.right, ast.Subscript):
            col_def = s
    if col_def is None:
        ctx.refuted('R20c', u, f, 'no definition col = %s - %s[i]' % (pos, table),
                    construct='column definition')
        return 'other', _expl()
    cvar = col_def.targets[0].id
    sub = col_def.value.right
    between = [s for s in stmts if idx_def.lineno < s.lineno < col_def.lineno
               and isinstance(s, (ast.Assign, ast.AugAssign)) and ivar in _targets(s)]
    ok_col = unparse(sub.value) == table and unparse(sub.slice) == ivar and not between
    ctx.decide('R20c', ok_col, u, col_def,
               'column = %s - %s[%s] with the raw line index' % (pos, table, ivar),
               'the column is not position minus the start of the line selected by the raw index '
               '(%s; index re-bound in between: %s)' % (short(col_def), [short(b) for b in between]),
               construct='column definition: ' + short(col_def))
    # the first-line test
    test_if = None
    for s in stmts:
        if isinstance(s, ast.If) and isinstance(s.test, ast.Compare) and \
                unparse(s.test.left) == ivar and isinstance(s.test.ops[0], ast.Eq) and \
                isinstance(s.test.comparators[0], ast.Constant):
            test_if = s
    if test_if is None:
        ctx.refuted('R20c', u, f, 'no `if %s == 0` selecting the first-line column offset' % ivar,
                    construct='first-line test')
    else:
        zero = test_if.test.comparators[0].value == 0
        rebound = [s for s in stmts if idx_def.lineno < s.lineno < test_if.lineno
                   and isinstance(s, (ast.Assign, ast.AugAssign)) and ivar in _targets(s)]
        ctx.decide('R20c', zero and not rebound, u, test_if,
                   'tests the raw index against 0 (no offset added before)',
                   'the first-line test `%s` does not see the raw line index: %s is modified '
                   'before it (%s) or compared with %r: the first-line column offset is applied '
                   'to the wrong lines when line_number_offset != 0'
                   % (short(test_if.test), ivar, [short(r) for r in rebound],
                      test_if.test.comparators[0].value),
                   construct='first-line test: ' + short(test_if.test))

        def adds(body, attr):
            return any(isinstance(s, ast.AugAssign) and isinstance(s.op, ast.Add)
                       and unparse(s.target) == cvar and is_self_attr(s.value, attr)
                       for s in body) or any(
                isinstance(s, ast.Assign) and unparse(s.targets[0]) == cvar and
                unparse(s.value) in ('%s + self.%s' % (cvar, attr), 'self.%s + %s' % (attr, cvar))
                for s in body)
        ok_off = adds(test_if.body, 'first_line_column_offset') and \
            adds(test_if.orelse, 'column_offset') and len(test_if.body) == 1 and \
            len(test_if.orelse) == 1
        ctx.decide('R20c', ok_off, u, test_if,
                   'first line: + first_line_column_offset; other lines: + column_offset',
                   'column offsets are not added as documented (first_line_column_offset on the '
                   'first line, column_offset otherwise)', construct='column offsets')
    # line offset
    lo = [s for s in stmts if isinstance(s, ast.AugAssign) and unparse(s.target) == ivar
          and isinstance(s.op, ast.Add) and is_self_attr(s.value, 'line_number_offset')]
    ctx.decide('R20c', len(lo) == 1, u, lo[0] if lo else f,
               'line = index + line_number_offset (added once)',
               'line_number_offset is not added exactly once to the line index',
               construct='line offset')
    # returns
    for r in [s for s in stmts if isinstance(s, ast.Return) and s.value is not None]:
        v = r.value
        facts = atomic_facts(r)
        none_branch = any(pol and unparse(t) == pos + ' is None' for t, pol in facts)
        if none_branch:
            continue
        if isinstance(v, ast.Tuple):
            ok = [unparse(e) for e in v.elts] == [ivar, cvar]
            ctx.decide('R20c', ok, u, r, 'returns (line, column)',
                       'returns %s instead of (line, column)' % short(v), construct='return tuple')
        elif isinstance(v, ast.Dict):
            d = {const_value(k): unparse(val) for k, val in zip(v.keys, v.values)}
            ok = d == {'lineno': ivar, 'colno': cvar}
            ctx.decide('R20c', ok, u, r, "returns {'lineno': line, 'colno': column}",
                       'dictionary result maps %s' % d, construct='return dict')

    # ------------------------------------------------------------ R20b
    names = ('line_number_offset', 'first_line_column_offset', 'column_offset')
    defaults = {'line_number_offset': 1, 'first_line_column_offset': 0, 'column_offset': 0}
    # calculator stores them unchanged
    iparams = [a.arg for a in init.args.args]
    for nm in names:
        st = [s for s in iter_own(init) if isinstance(s, ast.Assign) and is_self_attr(s.targets[0], nm)]
        ok = len(st) == 1 and isinstance(st[0].value, ast.Name) and st[0].value.id == nm and nm in iparams
        ctx.decide('R20b', ok, u, st[0] if st else init, 'calculator stores %s unchanged' % nm,
                   'LineNumbersCalculator does not store its %s argument unchanged' % nm,
                   construct='LineNumbersCalculator.__init__: ' + nm)
    wm = w.methods('LatexWalker')
    winit, wp = wm.get('__init__'), wm.get('pos_to_lineno_colno')
    if winit is None or wp is None:
        raise AnalysisError('anchor vanished: LatexWalker.__init__/pos_to_lineno_colno')
    for nm in names:
        st = [s for s in iter_own(winit) if isinstance(s, ast.Assign) and is_self_attr(s.targets[0], nm)]
        pops = [s for s in st if isinstance(s.value, ast.Call) and call_name(s.value) == 'pop'
                and s.value.args and isinstance(s.value.args[0], ast.Constant)]
        ok = bool(pops) and pops[0].value.args[0].value == nm
        dfl = [s for s in st if isinstance(s.value, ast.Constant)]
        okd = bool(dfl) and dfl[0].value.value == defaults[nm] and any(
            pol and unparse(t) == 'self.%s is None' % nm for t, pol in atomic_facts(dfl[0]))
        ctx.decide('R20b', ok and okd, w, pops[0] if pops else winit,
                   'walker takes %s from the like-named option, default %r' % (nm, defaults[nm]),
                   'LatexWalker.__init__ does not take %s from the option of the same name with '
                   'default %r' % (nm, defaults[nm]), construct='LatexWalker.__init__: ' + nm)
    ctor = [c for c in iter_own(wp) if isinstance(c, ast.Call) and call_name(c) == 'LineNumbersCalculator']
    if not ctor:
        ctx.refuted('R20b', w, wp, 'LatexWalker.pos_to_lineno_colno does not build a '
                                   'LineNumbersCalculator', construct='calculator construction')
    else:
        c = ctor[0]
        ok_s = c.args and is_self_attr(c.args[0], 's')
        ctx.decide('R20b', bool(ok_s), w, c, 'calculator built on self.s',
                   'calculator is not built on the walker\'s own string', construct='calculator string')
        for nm in names:
            v = kwarg(c, nm)
            ctx.decide('R20b', v is not None and is_self_attr(v, nm), w, c,
                       '%s forwarded under its own name' % nm,
                       'LineNumbersCalculator(%s=...) does not receive self.%s' % (nm, nm),
                       construct='forward ' + nm)
    # the lazily built calculator is memoised under `is None` and used for the answer
    ret = [r for r in iter_own(wp) if isinstance(r, ast.Return)]
    ok_r = len(ret) == 1 and isinstance(ret[0].value, ast.Call) and \
        call_name(ret[0].value) == 'pos_to_lineno_colno' and \
        ret[0].value.args and unparse(ret[0].value.args[0]) == wp.args.args[1].arg
    ctx.decide('R20b', ok_r, w, wp, 'walker delegates with the queried position',
               'LatexWalker.pos_to_lineno_colno does not delegate the queried position',
               construct='delegation')

    # ------------------------------------------------------------ R20a
    pcm = w.methods('LatexWalker._ParsingContext')
    ex = pcm.get('__exit__')
    if ex is None:
        raise AnalysisError('anchor vanished: _ParsingContext.__exit__')
    assigns = []
    for s in iter_own(ex):
        if isinstance(s, ast.Assign) and isinstance(s.targets[0], ast.Tuple):
            t = [unparse(e) for e in s.targets[0].elts]
            if len(t) == 2 and t[0].endswith('.lineno') and t[1].endswith('.colno'):
                assigns.append(s)
    if not assigns:
        ctx.refuted('R20a', w, ex, '__exit__ no longer fills in lineno/colno of the error',
                    construct='lineno/colno assignment')
    for s in assigns:
        evar = unparse(s.targets[0].elts[0]).rsplit('.', 1)[0]
        call = s.value
        ok = isinstance(call, ast.Call) and call_name(call) == 'pos_to_lineno_colno' and call.args
        src_ok = False
        if ok:
            a = call.args[0]
            if unparse(a) == evar + '.pos':
                src_ok = True
            elif isinstance(a, ast.Name):
                defs = [d for d in iter_own(ex) if isinstance(d, ast.Assign)
                        and a.id in _targets(d) and d.lineno < s.lineno]
                src_ok = bool(defs) and all(
                    unparse(d.value) in (evar + '.pos', "getattr(%s, 'pos')" % evar,
                                         "getattr(%s, 'pos', None)" % evar) or
                    (isinstance(d.value, ast.IfExp) and "getattr(%s, 'pos')" % evar in unparse(d.value))
                    for d in defs)
        ctx.decide('R20a', bool(ok and src_ok), w, s,
                   'lineno/colno computed from the error\'s own pos',
                   'lineno/colno of the error are computed from %s, not from the error\'s own '
                   'position' % (short(call.args[0]) if ok else short(call)),
                   construct='error annotation: ' + short(s))
        # guard must not exclude position 0
        bad = []
        for t, pol in atomic_facts(s):
            if gcommon.is_truthiness_of_position(t):
                bad.append(t)
        ctx.decide('R20a', not bad, w, s, 'guard keeps position 0',
                   'the annotation is skipped when %s is falsy: an error at position 0 gets no '
                   'line/column' % [short(b) for b in bad],
                   construct='error annotation guard')
        # the annotated exception is the caught one
        caught = any(isinstance(d, ast.Assign) and unparse(d.targets[0]) == evar
                     and unparse(d.value) == ex.args.args[2].arg for d in iter_own(ex))
        ctx.decide('R20a', caught or evar == ex.args.args[2].arg, w, s,
                   'annotated object is the exception being propagated',
                   'the object annotated (%s) is not the exception passed to __exit__' % evar,
                   construct='error annotation target')

    # ------------------------------------------------------------ G9 (scope: this property's files)
    n = 0
    for mod in (u, w, repo.mod('pylatexenc.latexnodes._exctypes')):
        for fn in mod.functions.values():
            for t, where in gcommon.truthiness_tests(fn):
                if gcommon.is_truthiness_of_position(t):
                    n += 1
                    ctx.refuted('G9', mod, where, 'position value %s tested by truthiness: '
                                                  'position 0 is treated like "no position"'
                                % short(t), construct='%s: %s' % (fn._qualname, short(where, 80)))
    ctx.holds('G9', w, ex, 'no truthiness test on a position value in _util/_walker/_exctypes '
                           '(%d functions scanned)' % sum(len(m.functions) for m in (u, w)),
              construct='scan of position tests')
    ctx.assume('bisect.bisect_right semantics; the line-start table _pos_new_lines is the sorted '
               'list of line starts beginning with 0 (value-level, not decided)')
    return 'other', _expl()


def _expl():
    return ('Decides the algebraic shape of the position -> (line, column) map and of the error '
            'annotation: with col = pos - T[i] and line = i + offset for one and the same raw index '
            'i, the identity pos = T[i] + col - column offset of that line holds by construction '
            'for every string and position.  That T is the table of line starts and that bisect '
            'selects the right row are value-level facts that are trusted, not decided.')


def _targets(s):
    out = set()
    tg = s.targets if isinstance(s, ast.Assign) else [s.target]
    for t in tg:
        for n in ast.walk(t):
            if isinstance(n, ast.Name):
                out.add(n.id)
    return out
