# -*- coding: utf-8 -*-
"""C20  Positions map to the right line and column, also in error reports.

R20a  errors are annotated from their own position, and position 0 is a position
      (no truthiness test on a position value);
R20b  the walker stores its three offsets and forwards each under its own name;
R20c  in pos_to_lineno_colno the column is pos - T[i] with the same raw index i
      that yields the line; the first-line offset is chosen by testing that raw
      index against 0 before any offset is added; results are returned in the
      documented order / under the documented keys.
"""
import ast
from ..core import (AnalysisError, short, unparse, iter_own, call_name, call_recv, kwarg,
                    is_self_attr, atomic_facts, parents, enclosing_stmt, const_value, enclosing_func)
from . import gcommon
from .. import affine, symex

UTIL = 'pylatexenc._util'
WALKER = 'pylatexenc.latexwalker._walker'
from .. import core as _core20


import re as _re20
_LINECOL_RX = _re20.compile(r'(^|_)(lineno|colno|line_no|col_no|linenumber|colnumber)($|_)')


def _is_truthiness_of_linecol(t):
    if isinstance(t, ast.UnaryOp) and isinstance(t.op, ast.Not):
        t = t.operand
    if isinstance(t, (ast.Name, ast.Attribute)):
        return bool(_LINECOL_RX.search(unparse(t).rsplit('.', 1)[-1]))
    return False


def run(ctx):
    repo = ctx.repo
    u = repo.mod(UTIL)
    w = repo.mod(WALKER)
    ctx.rule('R20a', 'parse errors leaving parse_content get lineno/colno from '
                     'pos_to_lineno_colno(<their own pos>), under a guard that does not exclude '
                     'position 0', 2)
    ctx.rule('R20b', 'LatexWalker stores line_number_offset / first_line_column_offset / '
                     'column_offset from the like-named option (defaults 1, 0, 0) and forwards '
                     'each to LineNumbersCalculator under its own name; the calculator stores them '
                     'unchanged', 9)
    ctx.rule('R20c', 'pos_to_lineno_colno: i = bisect_right(T, pos) - 1; col = pos - T[i]; '
                     'first_line_column_offset iff raw i == 0 else column_offset; line = i + '
                     'line_number_offset; returned as (line, col) / {lineno, colno}', 6)
    ctx.rule('R20d', 'the line-start table is 0 followed by (index of each newline) + 1 in increasing order: '
                     'every search for the next newline starts at the previous line start, no line is '
                     'skipped; the table is built from the string given to the calculator', 3)
    ctx.rule('R20e', 'no line/column calculator is shared between walkers through a module-level cache '
                     'whose key omits the string or one of the offsets (C09\'s module-state rule on '
                     '_util and _walker)', 1)
    ctx.rule('G9', 'a position value (pos, epos, pos_end, ...) is never tested by truthiness: 0 is '
                   'a valid position and must not be treated like None', 1)

    # ------------------------------------------------------------ R20c
    lnc = u.methods('LineNumbersCalculator')
    f = lnc.get('pos_to_lineno_colno')
    init = lnc.get('__init__')
    if f is None or init is None:
        raise AnalysisError('anchor vanished: LineNumbersCalculator.pos_to_lineno_colno/__init__')
    _r20c(ctx, u, f)
    _r20d(ctx, u, init)

    # ------------------------------------------------------------ R20b
    names = ('line_number_offset', 'first_line_column_offset', 'column_offset')
    defaults = {'line_number_offset': 1, 'first_line_column_offset': 0, 'column_offset': 0}
    # calculator stores them unchanged
    iparams = [a.arg for a in init.args.args]
    for nm in names:
        st = [s for s in iter_own(init) if isinstance(s, ast.Assign) and is_self_attr(s.targets[0], nm)]
        ok = len(st) == 1 and isinstance(st[0].value, ast.Name) and st[0].value.id == nm and nm in iparams
        ctx.decide('R20b', ok, u, st[0] if st else init, 'calculator stores %s unchanged' % nm,
                   'LineNumbersCalculator does not store its %s argument unchanged' % nm,
                   construct='LineNumbersCalculator.__init__: ' + nm)
    wm = w.methods('LatexWalker')
    winit, wp = wm.get('__init__'), wm.get('pos_to_lineno_colno')
    if winit is None or wp is None:
        raise AnalysisError('anchor vanished: LatexWalker.__init__/pos_to_lineno_colno')
    for nm in names:
        st = [s for s in iter_own(winit) if isinstance(s, ast.Assign) and is_self_attr(s.targets[0], nm)]
        pops = [s for s in st if isinstance(s.value, ast.Call) and call_name(s.value) == 'pop'
                and s.value.args and isinstance(s.value.args[0], ast.Constant)]
        ok = bool(pops) and pops[0].value.args[0].value == nm
        dfl = [s for s in st if isinstance(s.value, ast.Constant)]
        okd = bool(dfl) and dfl[0].value.value == defaults[nm] and any(
            pol and unparse(t) == 'self.%s is None' % nm for t, pol in atomic_facts(dfl[0]))
        if not (ok and okd):
            # per path (E7): at every normal exit of __init__ the field holds either the popped option (on a path where
            # it is not None) or the default constant (on a path where the popped option is None)
            v2 = _option_field_paths(winit, nm, defaults[nm])
            if v2 is not None:
                ok, okd = v2, v2
        ctx.decide('R20b', ok and okd, w, pops[0] if pops else winit,
                   'walker takes %s from the like-named option, default %r' % (nm, defaults[nm]),
                   'LatexWalker.__init__ does not take %s from the option of the same name with '
                   'default %r' % (nm, defaults[nm]), construct='LatexWalker.__init__: ' + nm)
    ctor = [c for _f in wm.values() for c in iter_own(_f) if isinstance(c, ast.Call)
            and call_name(c) == 'LineNumbersCalculator']
    if not ctor:
        ctx.refuted('R20b', w, wp, 'LatexWalker.pos_to_lineno_colno does not build a '
                                   'LineNumbersCalculator', construct='calculator construction')
    else:
        c = ctor[0]
        ok_s = c.args and is_self_attr(c.args[0], 's')
        ctx.decide('R20b', bool(ok_s), w, c, 'calculator built on self.s',
                   'calculator is not built on the walker\'s own string', construct='calculator string')
        for nm in names:
            v = kwarg(c, nm)
            if v is None and nm in iparams:
                ix = iparams.index(nm) - 1
                if 0 <= ix < len(c.args):
                    v = c.args[ix]
            ctx.decide('R20b', v is not None and is_self_attr(v, nm), w, c,
                       '%s forwarded under its own name' % nm,
                       'LineNumbersCalculator(%s=...) does not receive self.%s' % (nm, nm),
                       construct='forward ' + nm)
    # the lazily built calculator is memoised under `is None` and used for the answer
    try:
        rcs = symex.return_cases(wp)
    except symex.TooManyPaths as e:
        rcs = None
        ctx.unknown('R20b', w, wp, str(e), construct='delegation')
    if rcs is not None:
        qp = wp.args.args[1].arg
        bad = None
        for cs in rcs:
            v = cs.sub
            d_ = cs.env.get('#def', {}).get(v.id) if isinstance(v, ast.Name) else None
            if isinstance(d_, ast.AST):
                v = d_
            if not (isinstance(v, ast.Call) and call_name(v) == 'pos_to_lineno_colno' and v.args):
                bad = (cs, 'returns %s, not the calculator\'s answer' % short(v))
            elif not (isinstance(v.args[0], ast.Name) and v.args[0].id == qp):
                bad = (cs, 'asks the calculator about %s, not about the queried position %s'
                       % (short(v.args[0]), qp))
        ctx.decide('R20b', bad is None and bool(rcs), w, bad[0].node if bad else wp,
                   'walker delegates with the queried position on every path (%d)' % len(rcs),
                   'LatexWalker.pos_to_lineno_colno on the path [%s] %s: that position is reported on '
                   'another line/column than LineNumbersCalculator gives for it'
                   % (' & '.join(bad[0].cond_src())[-120:] if bad else '', bad[1] if bad else ''),
                   construct='delegation')

    # ------------------------------------------------------------ R20e
    # a calculator (or its table) remembered at module level must be keyed by everything it was
    # built from: the string and the three offsets
    from . import c09
    c09._module_state(ctx, repo, 'R20e', lambda name: name in (UTIL, WALKER))
    ctx.holds('R20e', w, wp, 'module-level containers of _util/_walker scanned for stores outside the memo '
                             'idiom and for incomplete cache keys', construct='module state scan', trivial=True)

    # ------------------------------------------------------------ R20a
    pcm = w.methods('LatexWalker._ParsingContext')
    ex = pcm.get('__exit__')
    if ex is None:
        raise AnalysisError('anchor vanished: _ParsingContext.__exit__')
    assigns = []
    for s in iter_own(ex):
        if isinstance(s, ast.Assign) and isinstance(s.targets[0], ast.Tuple):
            t = [unparse(e) for e in s.targets[0].elts]
            if len(t) == 2 and t[0].endswith('.lineno') and t[1].endswith('.colno'):
                assigns.append(s)
    if not assigns:
        ctx.refuted('R20a', w, ex, '__exit__ no longer fills in lineno/colno of the error',
                    construct='lineno/colno assignment')
    for s in assigns:
        evar = unparse(s.targets[0].elts[0]).rsplit('.', 1)[0]
        call = s.value
        ok = isinstance(call, ast.Call) and call_name(call) == 'pos_to_lineno_colno' and call.args
        src_ok = False
        if ok:
            a = call.args[0]
            if unparse(a) == evar + '.pos':
                src_ok = True
            elif isinstance(a, ast.Name):
                defs = [d for d in iter_own(ex) if isinstance(d, ast.Assign)
                        and a.id in _targets(d) and d.lineno < s.lineno]
                src_ok = bool(defs) and all(
                    unparse(d.value) in (evar + '.pos', "getattr(%s, 'pos')" % evar,
                                         "getattr(%s, 'pos', None)" % evar) or
                    (isinstance(d.value, ast.IfExp) and "getattr(%s, 'pos')" % evar in unparse(d.value))
                    for d in defs)
        ctx.decide('R20a', bool(ok and src_ok), w, s,
                   'lineno/colno computed from the error\'s own pos',
                   'lineno/colno of the error are computed from %s, not from the error\'s own '
                   'position' % (short(call.args[0]) if ok else short(call)),
                   construct='error annotation: ' + short(s))
        # guard must not exclude position 0
        bad = []
        for t, pol in atomic_facts(s):
            if gcommon.is_truthiness_of_position(t):
                bad.append(t)
        ctx.decide('R20a', not bad, w, s, 'guard keeps position 0',
                   'the annotation is skipped when %s is falsy: an error at position 0 gets no '
                   'line/column' % [short(b) for b in bad],
                   construct='error annotation guard')
        # the annotated exception is the caught one
        caught = any(isinstance(d, ast.Assign) and unparse(d.targets[0]) == evar
                     and unparse(d.value) == ex.args.args[2].arg for d in iter_own(ex))
        ctx.decide('R20a', caught or evar == ex.args.args[2].arg, w, s,
                   'annotated object is the exception being propagated',
                   'the object annotated (%s) is not the exception passed to __exit__' % evar,
                   construct='error annotation target')

    # ------------------------------------------------------------ G9 (scope: this property's files)
    n = 0
    for mod in (u, w, repo.mod('pylatexenc.latexnodes._exctypes')):
        for fn in mod.functions.values():
            for t, where in gcommon.truthiness_tests(fn):
                if gcommon.is_truthiness_of_position(t):
                    n += 1
                    ctx.refuted('G9', mod, where, 'position value %s tested by truthiness: '
                                                  'position 0 is treated like "no position"'
                                % short(t), construct='%s: %s' % (fn._qualname, short(where, 80)))
                elif _is_truthiness_of_linecol(t):
                    # G9-linecol: columns are 0-based and the first line number is configurable
                    # (line_number_offset), so 0 is a legitimate value of both
                    n += 1
                    ctx.refuted('G9', mod, where, 'line/column value %s tested by truthiness: column 0 (or line 0 '
                                                  'with a line-number offset) is treated like "not known" and '
                                                  'disappears from the report' % short(t),
                                construct='%s: %s' % (fn._qualname, short(where, 80)))
    ctx.holds('G9', w, ex, 'no truthiness test on a position value in _util/_walker/_exctypes '
                           '(%d functions scanned)' % sum(len(m.functions) for m in (u, w)),
              construct='scan of position tests')
    ctx.assume('bisect.bisect_right semantics; the line-start table _pos_new_lines is the sorted '
               'list of line starts beginning with 0 (value-level, not decided)')
    # ---- R20f: one position map per document, built with the configured offsets
    ctx.rule('R20f', 'every LineNumbersCalculator the package builds is given the three configured offsets '
                     '(line_number_offset, first_line_column_offset, column_offset): a second map with default '
                     'offsets would number the same position differently', 1)
    n_lc = 0
    for mod_ in sorted(repo.modules.values(), key=lambda m_: m_.name):
        if mod_.name.endswith('__main__'):
            continue
        for c_ in ast.walk(mod_.tree):
            if isinstance(c_, ast.Call) and call_name(c_) == 'LineNumbersCalculator':
                n_lc += 1
                need = {'line_number_offset', 'first_line_column_offset', 'column_offset'}
                # bind positional arguments to the parameter names of LineNumbersCalculator.__init__
                um_ = repo.mod('pylatexenc._util')
                ini_ = um_.methods('LineNumbersCalculator').get('__init__')
                pn_ = [a_.arg for a_ in ini_.args.args][1:] if ini_ is not None else []
                bound = dict(zip(pn_, c_.args))
                bound.update((k.arg, k.value) for k in c_.keywords if k.arg)
                given = set(bound)
                fromcfg = all(any(isinstance(x, ast.Attribute) and x.attr == k_ for x in ast.walk(v_))
                              for k_, v_ in bound.items() if k_ in need)
                ctx.decide('R20f', need <= given and fromcfg, mod_, c_,
                           'built with the configured offsets: ' + short(c_, 60),
                           '%s builds a line/column map without the configured offsets (%s): positions located through '
                           'it (an error annotated at construction time, say) are numbered from line 1, column 0 '
                           'whatever the walker was configured with, and the walker does not correct them afterwards'
                           % (mod_.relpath, short(c_, 70)), construct='%s: %s' % (mod_.relpath, short(c_, 50)))
    if n_lc == 0:
        ctx.unknown('R20f', repo.mod('pylatexenc._util'), None, 'no construction of LineNumbersCalculator found',
                    construct='LineNumbersCalculator constructions')

    # ---- R20g: the position reported is the error's own
    ctx.rule('R20g', 'in the error classes no loop variable re-binds a name that holds the error\'s own position / line / '
                     'column and is read again after the loop (grules.loop_shadowing)', 0)
    from .. import grules as _gr
    exm_ = repo.mod('pylatexenc.latexnodes._exctypes')
    n_sh = 0
    for q_, f_ in sorted(exm_.functions.items()):
        for rd_, name_, lp_ in _gr.loop_shadowing(f_):
            n_sh += 1
            ctx.refuted('R20g', exm_, rd_, '%s: the loop at line %d re-binds %s, which held a value computed before the loop, '
                        'and %s is read again after the loop: the message reports the line and column of the last open '
                        'block instead of the error\'s own' % (q_, lp_.lineno, name_, name_),
                        construct='%s: %s shadowed by a loop target' % (q_, name_))
    ctx.holds('R20g', exm_, None, 'no loop target shadows a value read after the loop in the error classes',
              construct='loop shadowing scan', trivial=True)

    # ---- R20h (C09 R09c): error objects do not share their list of open blocks
    ctx.rule('R20h', 'no mutable default argument value is mutated or stored (the open-blocks list of an error is its own: a '
                     'report never lists the blocks of an earlier document) (C09 R09c)', 4)
    from . import c09 as _c09, c05 as _c05
    _c09._mutable_defaults(_c05._Sub(ctx, 'R20h'), repo)

    # ---- R20i: line and column are those of the error's own position
    ctx.rule('R20i', 'a method of the error classes that sets self.lineno / self.colno from pos_to_lineno_colno(P) sets self.pos '
                     'to that same P on the same path: an error that already has a position never takes the line and column of '
                     'another place (a node attached as context)', 1)
    n_ln = 0
    for q_, f_ in sorted(exm_.functions.items()):
        if '.' not in q_ or q_.endswith('.__init__'):
            continue
        if not any(isinstance(t_, ast.Attribute) and isinstance(t_.ctx, ast.Store) and t_.attr in ('lineno', 'colno')
                   and isinstance(t_.value, ast.Name) and t_.value.id == 'self' for t_ in ast.walk(f_)):
            continue
        try:
            lcs = symex.Walker(want_exits=True, track_attrs=('self.pos', 'self.lineno', 'self.colno')).run_block(f_.body)
        except symex.TooManyPaths as e:
            ctx.unknown('R20i', exm_, f_, str(e), construct='%s: line/column source' % q_)
            continue
        badl = None
        for cs in lcs:
            for fld in ('self.lineno', 'self.colno'):
                v_ = cs.env.get(fld)
                if v_ is None or (isinstance(v_, ast.Constant) and v_.value is None):
                    continue
                it = symex.item_def(unparse(v_), cs.env)
                call_ = it[3] if it else (v_ if isinstance(v_, ast.Call) else None)
                # the lookup may sit in a module-level helper called with the position: helper(node, P)
                if isinstance(call_, ast.Call) and isinstance(call_.func, ast.Name) and call_.func.id in exm_.functions:
                    h_ = exm_.functions[call_.func.id]
                    hp_ = [a_.arg for a_ in h_.args.args]
                    inner_ = [c_ for c_ in ast.walk(h_) if isinstance(c_, ast.Call) and call_name(c_) == 'pos_to_lineno_colno'
                              and c_.args and isinstance(c_.args[0], ast.Name) and c_.args[0].id in hp_]
                    if inner_ and hp_.index(inner_[0].args[0].id) < len(call_.args):
                        call_ = ast.Call(func=inner_[0].func, args=[call_.args[hp_.index(inner_[0].args[0].id)]], keywords=[])
                if not (isinstance(call_, ast.Call) and call_name(call_) == 'pos_to_lineno_colno' and call_.args):
                    continue
                n_ln += 1
                P = unparse(symex.expand(call_.args[0], cs.env))
                sp = cs.env.get('self.pos')
                same = sp is not None and unparse(symex.expand(sp, cs.env)) == P
                if not same and badl is None:
                    badl = (cs, fld, P)
        ctx.decide('R20i', badl is None, exm_, f_, '%s: line/column set together with the position they belong to' % q_,
                   '%s sets %s from pos_to_lineno_colno(%s) on the path [%s], on which self.pos is not set to that position (it '
                   'keeps the position the error already had): the message then shows the line and column of another place '
                   'than the error\'s own position' % (q_, badl[1] if badl else '', badl[2] if badl else '',
                                                      ' & '.join(badl[0].cond_src())[-140:] if badl else ''),
                   construct='%s: line/column source' % q_)
    if not n_ln:
        ctx.unknown('R20i', exm_, None, 'no method sets line/column from a position', construct='line/column source')

    # ---- R20l: every parsing context locates the error, whatever it was opened for
    ctx.rule('R20l', 'the context manager that fills in line and column of a passing parse error (`e.lineno, e.colno = '
                     'pos_to_lineno_colno(e.pos)` in __exit__) does so under tests on the ERROR only (is it a parse error, has '
                     'it a position, is it not located yet): not under a test on the context\'s own state (is this a named '
                     'context), which leaves errors raised at top level or re-created by an inner parser without line/column', 1)
    n_fl = 0
    exits_ = [(q_, f_) for q_, f_ in sorted(w.functions.items()) if q_.endswith('.__exit__')]
    for q_, f_ in list(exits_):
        # helpers of the same class that __exit__ hands the error to
        for c_ in iter_own(f_):
            if isinstance(c_, ast.Call) and is_self_attr(c_.func):
                hq_ = q_[:-len('__exit__')] + c_.func.attr
                if hq_ in w.functions and (hq_, w.functions[hq_]) not in exits_:
                    exits_.append((hq_, w.functions[hq_]))
    for q_, f_ in exits_:
        exn_ = {a_.arg for a_ in f_.args.args[1:]}
        chg = True
        while chg:
            chg = False
            for st_ in iter_own(f_):
                if isinstance(st_, ast.Assign) and len(st_.targets) == 1 and isinstance(st_.targets[0], ast.Name) and \
                        isinstance(st_.value, ast.Name) and st_.value.id in exn_ and st_.targets[0].id not in exn_:
                    exn_.add(st_.targets[0].id)
                    chg = True
        for st_ in iter_own(f_):
            if not (isinstance(st_, ast.Assign) and any(isinstance(t_, ast.Attribute) and t_.attr in ('lineno', 'colno')
                                                        for tt_ in st_.targets for t_ in ast.walk(tt_))
                    and any(isinstance(c_, ast.Call) and call_name(c_) == 'pos_to_lineno_colno' for c_ in ast.walk(st_.value))):
                continue
            n_fl += 1
            bad_t = None
            ch_ = st_
            for p_ in _core20.parents(st_):
                if p_ is f_:
                    break
                if isinstance(p_, (ast.If, ast.While)):
                    for x_ in ast.walk(p_.test):
                        if (isinstance(x_, ast.Attribute) and isinstance(x_.value, ast.Name) and x_.value.id == 'self') or \
                                (isinstance(x_, ast.Name) and x_.id not in exn_ and
                                 x_.id not in ('hasattr', 'getattr', 'isinstance', 'None') and not x_.id[:1].isupper()
                                 and not any(isinstance(a_, ast.Assign) and any(isinstance(t_, ast.Name) and t_.id == x_.id
                                                                                 for t_ in a_.targets)
                                             and all(isinstance(n_, ast.Name) and (n_.id in exn_ or n_.id in ('getattr', 'hasattr'))
                                                     or not isinstance(n_, ast.Name) for n_ in ast.walk(a_.value))
                                             and not any(isinstance(n_, ast.Attribute) and isinstance(n_.value, ast.Name) and
                                                         n_.value.id == 'self' for n_ in ast.walk(a_.value))
                                             for a_ in iter_own(f_))):
                            bad_t = bad_t or p_.test
                ch_ = p_
            ctx.decide('R20l', bad_t is None, w, st_, '%s: line/column filled in under tests on the error only' % q_,
                       '%s fills in e.lineno / e.colno only under the test `%s`, which is about the context and not about the '
                       'error: an error that passes only contexts for which the test is false (the top-level context, an '
                       'unnamed one) escapes from a strict parse with lineno and colno None'
                       % (q_, short(bad_t, 60) if bad_t is not None else ''), construct='%s: line/column fill-in' % q_)
    if not n_fl:
        ctx.unknown('R20l', w, None, 'no __exit__ fills in line/column', construct='line/column fill-in')

    # ---- R20j: an explicit line/column belongs to the position it is passed with
    ctx.rule('R20j', 'wherever an error is constructed with explicit lineno= / colno=, they are those of the pos= passed in the same '
                     'call: copied from the same error object, or computed by pos_to_lineno_colno() from the value that pos= has '
                     'at that point (not from an earlier value of a variable that has moved on since); exercised on a built-in '
                     'example on every run', 0)
    from ..core import set_parents as _sp
    ex_ = ast.parse('def f(w, pos):\n loc = w.pos_to_lineno_colno(pos, as_dict=True)\n pos = pos + 3\n'
                    ' raise E(pos=pos, lineno=loc["lineno"], colno=loc["colno"])\n')
    _sp(ex_)
    if [ok_ for ok_, _w, _n in explicit_location_sites(ex_.body[0])] != [False, False]:
        raise AnalysisError('R20j: the rule no longer fires on its built-in example')
    n_el = 0
    for mod_ in sorted(repo.modules.values(), key=lambda m_: m_.name):
        if mod_.name.endswith('__main__'):
            continue
        for q_, f_ in sorted(mod_.functions.items()):
            if not any(isinstance(k_, ast.keyword) and k_.arg in ('lineno', 'colno') for k_ in ast.walk(f_)):
                continue
            for ok_, why_, node_ in explicit_location_sites(f_):
                n_el += 1
                ctx.decide('R20j', ok_, mod_, node_, '%s: %s' % (q_, why_),
                           '%s builds an error whose line/column do not belong to its position: %s -- the enclosing parse '
                           'context does not recompute a location that is already set, so the report points at another place '
                           'than the error' % (q_, why_), construct='%s: explicit location %s' % (q_, short(node_, 40)))
    ctx.holds('R20j', exm_, None, '%d construction(s) with explicit line/column' % n_el, construct='explicit location scan',
              trivial=True)

    # ---- R20k: who may move an error
    ctx.rule('R20k', 'outside the error classes, a caught error\'s `pos` is never re-assigned unless its line and column are '
                     're-assigned (or cleared) in the same block: the parse context fills in line/column only when they are '
                     'missing, so a moved position would keep the line and column of the old one (exercised on a built-in '
                     'example on every run)', 0)
    ex2 = ast.parse('def f(w):\n try:\n  g()\n except E as e:\n  e.pos = w.first.pos\n  raise\n')
    _sp(ex2)
    if len(list(moved_error_positions(ex2))) != 1:
        raise AnalysisError('R20k: the rule no longer fires on its built-in example')
    n_mv = 0
    for mod_ in sorted(repo.modules.values(), key=lambda m_: m_.name):
        if mod_.name == exm_.name or mod_.name.endswith('__main__'):
            continue
        for st_, var_ in moved_error_positions(mod_.tree):
            n_mv += 1
            fq_ = enclosing_func(st_)
            ctx.refuted('R20k', mod_, st_, '%s re-assigns %s.pos (%s) on a caught error without touching its lineno / colno: '
                        'when the error was already located (it passed through an inner parse context) the report shows the '
                        'new position together with the line and column of the old one'
                        % (getattr(fq_, 'name', '<module>'), var_, short(st_, 60)),
                        construct='%s: %s.pos re-assigned' % (getattr(fq_, 'name', '<module>'), var_))
    ctx.holds('R20k', exm_, None, 'no caught error is moved outside the error classes', construct='moved error scan', trivial=True)

    return 'other', _expl()


def _first_line_test(t, raw_nf):
    """+1 if the comparison `t` is true exactly when the raw index is 0, -1 if true exactly when
    it is not 0 (index >= 0), 0 if it is a test of something else / another boundary; None when
    the tested quantity is not the raw index"""
    if isinstance(t, ast.UnaryOp) and isinstance(t.op, ast.Not):
        r = _first_line_test(t.operand, raw_nf)
        return -r if r else r
    if not isinstance(t, ast.Compare) or len(t.ops) != 1:
        try:
            if affine.norm(t, {}) == raw_nf:     # truthiness of the raw index
                return -1
        except affine.NotAffine:
            pass
        return None
    try:
        d = affine.diff(t.left, t.comparators[0], {})
    except affine.NotAffine:
        return None
    # d = (left - right) must be  +-(raw - c)
    for sign in (1, -1):
        c0 = sign * d[0] - raw_nf[0]
        terms = dict((k, sign * v) for k, v in d[1].items())
        if terms == raw_nf[1]:
            # sign*(left-right) = raw + c0 ; evaluate the comparison for raw = 0, 1, 2
            import operator
            ops = {ast.Eq: operator.eq, ast.NotEq: operator.ne, ast.Lt: operator.lt,
                   ast.LtE: operator.le, ast.Gt: operator.gt, ast.GtE: operator.ge}
            op = ops.get(type(t.ops[0]))
            if op is None:
                return None
            vals = [op(sign * (r + c0), 0) for r in (0, 1, 2, 50)]
            if vals == [True, False, False, False]:
                return 1
            if vals == [False, True, True, True]:
                return -1
            return 0
    return None


def _r20d(ctx, u, init):
    """shape of the line-start table construction (decided on substituted emitted values per
    structural path); two carriers are recognised: a generator (`yield x`, table =
    list(gen(s))) and an accumulator list in __init__ itself (`acc.append(x)`, table = acc)"""
    sparam = init.args.args[1].arg
    table = None
    acc_form = None
    for st in iter_own(init):
        if isinstance(st, ast.Assign) and is_self_attr(st.targets[0]) and isinstance(st.value, ast.Call):
            inner = st.value
            if call_name(inner) in ('list', 'tuple', 'sorted') and inner.args and isinstance(inner.args[0], ast.Call):
                table = (st, inner.args[0])
        if isinstance(st, ast.Assign) and is_self_attr(st.targets[0]) and isinstance(st.value, ast.Name) and any(
                isinstance(c_, ast.Call) and call_name(c_) == 'append' and call_recv(c_) is not None
                and unparse(call_recv(c_)) == st.value.id for c_ in ast.walk(init)):
            acc_form = (st, st.value.id)
    gens = dict((g.name, g) for g in ast.walk(init) if isinstance(g, ast.FunctionDef) and g is not init)
    gens.update((q, g) for q, g in u.functions.items() if '.' not in q)
    if table is not None and call_name(table[1]) in gens:
        st, gcall = table
        ctx.decide('R20d', len(gcall.args) == 1 and unparse(gcall.args[0]) == sparam, u, st,
                   'table built from the calculator\'s own string', 'the line-start table is built from %s, not '
                   'from the string given to the calculator' % short(gcall), construct='line-start table: source')
        g = gens[call_name(gcall)]
        xp = g.args.args[0].arg
        body_stmts = g.body
        is_emit = lambda n: isinstance(n, ast.Yield)
        emit_types = (ast.Yield,)
        emitted = lambda sub: sub.value
        first_literal = None
    elif acc_form is not None:
        st, acc = acc_form
        g = init
        xp = sparam
        body_stmts = init.body
        is_emit = lambda n: isinstance(n, ast.Call) and call_name(n) == 'append' and call_recv(n) is not None \
            and unparse(call_recv(n)) == acc
        emit_types = (ast.Call,)
        emitted = lambda sub: sub.args[0] if sub.args else ast.Constant(value=None)
        ainit = [x for x in iter_own(init) if isinstance(x, ast.Assign) and any(
            isinstance(t_, ast.Name) and t_.id == acc for t_ in x.targets)]
        first_literal = ainit[0].value if len(ainit) == 1 else None
        ctx.holds('R20d', u, st, 'table is the list filled in __init__ from the calculator\'s own string',
                  construct='line-start table: source')
    else:
        ctx.unknown('R20d', u, init, 'line-start table is neither list(<generator>(s)) nor a list filled in __init__',
                    construct='line-start table')
        return
    sl = [c_ for st_ in body_stmts for c_ in ast.walk(st_) if isinstance(c_, ast.Call) and call_name(c_) == 'splitlines']
    if sl:
        ctx.refuted('R20d', u, sl[0], 'the line starts are derived from %s: str.splitlines() also ends a line at '
                    '\\r, \\v, \\f, \\x1c-\\x1e, \\x85, \\u2028 and \\u2029, while a line of the calculator ends at '
                    '\\n only -- a position after a lone carriage return is reported on the next line at column 0'
                    % short(sl[0], 40), construct='line-start generator: loop')
        return
    loops = [l for l in body_stmts if isinstance(l, ast.While)]
    if len(loops) != 1:
        ctx.unknown('R20d', u, g, 'the table is not filled by one while loop', construct='line-start generator')
        return
    loop = loops[0]
    mk = lambda: symex.Walker(is_sink=is_emit, sink_types=emit_types, want_exits=True,
                              pure=('find', 'index'), trace=True)
    pre = mk().run_block(body_stmts[:body_stmts.index(loop)])
    first = [c for c in pre if c.kind == 'call']
    if first_literal is not None:
        ok0 = not first and isinstance(first_literal, ast.List) and len(first_literal.elts) == 1 and \
            isinstance(first_literal.elts[0], ast.Constant) and first_literal.elts[0].value == 0
    else:
        ok0 = len(first) == 1 and isinstance(emitted(first[0].sub), ast.Constant) and emitted(first[0].sub).value == 0
    ctx.decide('R20d', ok0, u, first[0].node if first else g, 'the first line starts at 0',
               'the generator does not start the table with position 0', construct='line-start generator: first entry')
    ends = [c for c in pre if c.kind == 'end']
    if len(ends) != 1:
        ctx.unknown('R20d', u, g, 'initialisation not straight-line', construct='line-start generator')
        return
    env0 = ends[0].env
    body = mk().run_block(loop.body)
    ys = [c for c in body if c.kind == 'call']
    exits = [c for c in body if c.kind != 'call']
    if not ys:
        ctx.refuted('R20d', u, loop, 'the loop yields no line start', construct='line-start generator: loop')
        return

    def is_find(e, start=None):
        ok = isinstance(e, ast.Call) and call_name(e) in ('find', 'index') and unparse(call_recv(e)) == xp \
            and e.args and isinstance(e.args[0], ast.Constant) and e.args[0].value == '\n'
        if not ok:
            return False
        st = e.args[1] if len(e.args) > 1 else ast.Constant(value=0)
        return start is None or unparse(st).replace(' ', '') == start.replace(' ', '')

    def found_fact(cs, ftxt):
        """True/False if the path decides whether the search `ftxt` found a newline, else None"""
        fs = symex.facts_of(cs.conds)
        for txt, val in ((ftxt + ' == -1', False), (ftxt + ' < 0', False), (ftxt + ' >= 0', True),
                         (ftxt + ' > -1', True)):
            for t_, p_ in fs:
                if t_ == txt:
                    return p_ == val
        return None
    bad, unk = None, None
    y0 = emitted(ys[0].sub)
    # shape S1: the loop variable is the previous line start; the body searches from it
    if isinstance(y0, ast.BinOp) and isinstance(y0.op, ast.Add) and is_find(y0.left) and \
            isinstance(y0.right, ast.Constant) and y0.right.value == 1 and len(y0.left.args) == 2 and \
            isinstance(y0.left.args[1], ast.Name):
        kv = y0.left.args[1].id
        ftxt = unparse(y0.left)
        for c in ys:
            if unparse(emitted(c.sub)) != unparse(y0):
                bad = 'records %s on one path and %s on another' % (short(y0), short(emitted(c.sub)))
            elif found_fact(c, ftxt) is not True:
                bad = 'yields without having excluded the not-found result -1'
        for c in exits:
            nyield = sum(1 for n_, s_ in c.env.get('#trace', ()) if is_emit(n_))
            ff = found_fact(c, ftxt)
            if ff is True and nyield != 1:
                bad = ('on the path [%s] a newline was found but %d line starts are recorded: a newline '
                       'at the very end of the string (or another special case) starts no line, so '
                       'positions after it are reported on the previous line'
                       % (' & '.join(c.cond_src())[-110:], nyield))
            if c.kind in ('end', 'continue'):
                nv = c.env.get(kv)
                if ff is True and (nv is None or unparse(nv) != unparse(y0)):
                    bad = bad or 'the next search starts at %s, not at the line start just found' % (
                        short(nv) if nv is not None else kv)
        e0 = env0.get(kv)
        if not (isinstance(e0, ast.Constant) and e0.value == 0):
            bad = bad or 'the first search does not start at 0'
        # the loop test must not stop while newlines may remain: only `k < len(x)`-like bounds
        lt = unparse(loop.test).replace(' ', '')
        if lt not in ('True', '%s<len(%s)' % (kv, xp), '%s<=len(%s)' % (kv, xp)):
            unk = 'loop test %s not recognised' % short(loop.test)
    # shape S2: the loop variable is the index of the newline found last
    elif isinstance(y0, ast.BinOp) and isinstance(y0.op, ast.Add) and isinstance(y0.left, ast.Name) and \
            isinstance(y0.right, ast.Constant) and y0.right.value == 1:
        kv = y0.left.id
        e0 = env0.get(kv)
        if e0 is None or not is_find(e0, '0'):
            bad = 'the first search is %s, not %s.find(NL) from position 0' % (short(e0) if e0 is not None else '?', xp)
        atoms = list(symex._atoms(loop.test, True))
        stop_ok = [a for a, p_ in atoms if p_ and unparse(a).replace(' ', '') in (
            kv + '!=-1', kv + '>=0', kv + '>-1')]
        extra = [a for a, p_ in atoms if not any(a is b for b in stop_ok)]
        if not stop_ok:
            unk = 'loop test %s does not test the search result' % short(loop.test)
        elif extra:
            bad = bad or ('the loop also stops when %s is false although a newline was found: that newline '
                          'starts no line (e.g. a newline at the very end of the string), positions after '
                          'it are reported on the previous line' % ' and '.join(short(a) for a in extra))
        for c in exits:
            nyield = sum(1 for n_, s_ in c.env.get('#trace', ()) if is_emit(n_))
            if nyield != 1 or c.kind not in ('end', 'continue'):
                bad = bad or 'an iteration records %d line starts / leaves the loop early' % nyield
            nv = c.env.get(kv)
            if c.kind in ('end', 'continue') and not (nv is not None and is_find(nv, unparse(y0))):
                bad = bad or 'the next search is %s, not %s.find(NL, <line start just recorded>)' % (
                    short(nv) if nv is not None else '?', xp)
    elif any(is_find(n_) for n_ in ast.walk(y0)):
        bad = 'yields %s, not %s.find(NL, <previous line start>) + 1' % (short(y0, 70), xp)
    else:
        unk = 'the yielded value %s is not recognised as (index of a newline) + 1' % short(y0)
    if bad is None and unk is not None:
        ctx.unknown('R20d', u, loop, unk, construct='line-start generator: loop')
    else:
        ctx.decide('R20d', bad is None, u, loop,
                   'each entry is find(NL, previous line start) + 1, every newline found is recorded; '
                   'the search continues from that entry',
                   'line-start generator: %s: a line is skipped or counted twice, every later position is '
                   'reported on the wrong line' % bad, construct='line-start generator: loop')


def _r20c(ctx, u, f):
    """value-flow form of R20c: the substituted return values of every structural path are
    compared as affine normal forms (no dependence on local names or statement shapes)"""
    pos = f.args.args[1].arg
    try:
        cases = symex.return_cases_inlined(f, u.methods('LineNumbersCalculator'), pure=('bisect_right', 'bisect'))
    except symex.TooManyPaths as e:
        ctx.unknown('R20c', u, f, str(e), construct='pos_to_lineno_colno')
        return
    n = 0
    n_shared_res = [0]
    for cs in cases:
        if cs.polarity_of(lambda a: unparse(a) == pos + ' is None'):
            continue
        v = cs.sub
        if isinstance(v, ast.Tuple) and len(v.elts) == 2:
            line, col = v.elts
            shape = 'tuple'
        elif isinstance(v, ast.Dict):
            d = dict((const_value(k), val) for k, val in zip(v.keys, v.values))
            if set(d) != {'lineno', 'colno'}:
                ctx.refuted('R20c', u, cs.node, 'dictionary result has keys %s, not lineno/colno'
                            % sorted(map(str, d)), construct='return dict')
                continue
            line, col = d['lineno'], d['colno']
            shape = 'dict'
        elif isinstance(v, ast.Attribute) and unparse(v).startswith('self.'):
            # an object kept on the calculator: every caller receives the same one
            n_shared_res[0] += 1
            ctx.refuted('R20c', u, cs.node, 'pos_to_lineno_colno returns %s, an object that lives on the calculator and is filled '
                        'in again by the next lookup: every result handed out earlier (kept by a caller that locates several '
                        'positions, e.g. the start and the end of a node) silently changes to the line and column of the '
                        'latest position' % unparse(v), construct='return shared object %s' % unparse(v))
            continue
        else:
            ctx.unknown('R20c', u, cs.node, 'return value %s is neither a pair nor a dict' % short(v),
                        construct='return shape')
            continue
        n += 1
        path = ' & '.join(cs.cond_src())[:120]
        cons = 'return %s [%s]' % (shape, path)
        try:
            ln = affine.norm(line, {})
            cn = affine.norm(col, {})
        except affine.NotAffine as e:
            ctx.unknown('R20c', u, cs.node, 'result not affine: %s' % e, construct=cons)
            continue
        # line = bisect_right(T, pos) - 1 + self.line_number_offset
        bis = [k for k in ln[1] if k.startswith(('bisect_right(', 'bisect('))]
        ok_line = len(bis) == 1 and ln[1].get(bis[0]) == 1 and ln[0] == -1 and \
            dict((k, v_) for k, v_ in ln[1].items() if k != bis[0]) == {'self.line_number_offset': 1}
        table = None
        if ok_line:
            call = ast.parse(bis[0], mode='eval').body
            ok_line = len(call.args) == 2 and unparse(call.args[1]) == pos
            table = unparse(call.args[0])
        if not ok_line and not bis and not any(isinstance(c_, ast.Call) and call_name(c_) in ('bisect_right', 'bisect')
                                               for c_ in ast.walk(f)):
            # no bisect at all: a hand-written search.  Its correctness needs a loop invariant, which is out of reach;
            # one thing is decidable from its shape: a result variable that only ever takes the value of
            # `mid = (r + hi) // 2` stays below the initial `hi`, so with hi starting at len(T) - 1 the last line can
            # never be the answer
            verdict = _handwritten_search(f)
            if verdict is not None:
                ctx.refuted('R20c', u, cs.node, verdict, construct=cons + ' line')
            else:
                ctx.unknown('R20c', u, cs.node, 'the line is found by a hand-written search (%s), not by bisect_right: not decided'
                            % short(line, 60), construct=cons + ' line')
            n_shared_res[0] += 1
            n -= 1
            continue
        if not ok_line:
            ctx.refuted('R20c', u, cs.node, 'the line returned is %s, not bisect_right(T, %s) - 1 + '
                        'self.line_number_offset' % (short(line, 90), pos), construct=cons + ' line')
            continue
        ctx.holds('R20c', u, cs.node, 'line = %s - 1 + self.line_number_offset' % bis[0],
                  construct=cons + ' line')
        raw_nf = (-1, {bis[0]: 1})
        # which offset applies on this path
        first = None
        for t, pol in cs.conds:
            for a, ap in symex._atoms(t, pol):
                r = _first_line_test(a, raw_nf)
                if r in (1, -1):
                    first = (r == 1) == ap
                elif r == 0:
                    first = 'bad:' + unparse(a)
        if first is None:
            tests = [unparse(t) for t, _ in cs.conds]
            ctx.refuted('R20c', u, cs.node, 'no test of the raw line index against 0 selects the '
                        'column offset on this path (tests seen: %s): the first-line column offset '
                        'is applied to the wrong lines' % tests, construct=cons + ' first-line test')
            continue
        if isinstance(first, str):
            ctx.refuted('R20c', u, cs.node, 'the first-line test %s does not separate raw index 0 '
                        'from the rest' % first[4:], construct=cons + ' first-line test')
            continue
        off = 'self.first_line_column_offset' if first else 'self.column_offset'
        sub = '%s[%s - 1]' % (table, bis[0])
        want = {pos: 1, sub: -1, off: 1}
        got = dict(cn[1])
        ok_col = cn[0] == 0 and got == want
        ctx.decide('R20c', ok_col, u, cs.node,
                   'column = %s - %s + %s on the %s' % (pos, sub, off, 'first line' if first else 'other lines'),
                   'the column returned on %s is %s, expected %s - %s + %s (same raw index as the '
                   'line, offset of that kind of line)' % (
                       'the first line' if first else 'lines after the first', affine.show(cn),
                       pos, sub, off), construct=cons + ' column')
    if n + n_shared_res[0] < 4:
        raise AnalysisError('pos_to_lineno_colno: only %d result cases found (expected tuple/dict x '
                            'first/other line)' % n)


def _expl():
    return ('Decides the algebraic shape of the position -> (line, column) map and of the error '
            'annotation: with col = pos - T[i] and line = i + offset for one and the same raw index '
            'i, the identity pos = T[i] + col - column offset of that line holds by construction '
            'for every string and position.  That T is the table of line starts and that bisect '
            'selects the right row are value-level facts that are trusted, not decided.')


def _targets(s):
    out = set()
    tg = s.targets if isinstance(s, ast.Assign) else [s.target]
    for t in tg:
        for n in ast.walk(t):
            if isinstance(n, ast.Name):
                out.add(n.id)
    return out


def explicit_location_sites(f):
    """(ok, reason, call) for every call in `f` with a lineno= / colno= keyword, per path"""
    try:
        cases = symex.Walker(is_sink=lambda c_: any(k_.arg in ('lineno', 'colno') for k_ in c_.keywords)).run(f)
    except symex.TooManyPaths:
        return
    seen = set()
    for cs in cases:
        c = cs.sub
        posk = kwarg(c, 'pos')
        given = [nm for nm in ('lineno', 'colno') if kwarg(c, nm) is not None
                 and not (isinstance(kwarg(c, nm), ast.Constant) and kwarg(c, nm).value is None)]
        if len(given) == 1:
            key = (id(cs.node), 'pair', False)
            if key not in seen:
                seen.add(key)
                yield False, ('%s= is passed without %s=: the enclosing parse context completes the location only when BOTH are '
                              'missing, so the error keeps a line and no column' % (
                                  given[0], 'colno' if given[0] == 'lineno' else 'lineno')), cs.node
        for nm in ('lineno', 'colno'):
            v = kwarg(c, nm)
            if v is None or (isinstance(v, ast.Constant) and v.value is None):
                continue
            ok, why = False, None
            if posk is None:
                why = '%s= is given without pos=' % nm
            elif isinstance(v, ast.Attribute) and v.attr == nm and isinstance(posk, ast.Attribute) and posk.attr == 'pos' \
                    and unparse(v.value) == unparse(posk.value):
                ok, why = True, '%s and pos copied from the same object %s' % (nm, unparse(v.value))
            else:
                full = symex.expand(v, cs.env)
                calls = [x for x in ast.walk(full) if isinstance(x, ast.Call) and call_name(x) == 'pos_to_lineno_colno' and x.args]
                if not calls:
                    it = symex.item_def(unparse(v), cs.env)
                    if it and isinstance(it[3], ast.Call) and call_name(it[3]) == 'pos_to_lineno_colno' and it[3].args:
                        calls = [it[3]]
                if not calls:
                    why = '%s=%s is not computed from a position' % (nm, short(v, 40))
                else:
                    P = unparse(symex.expand(calls[0].args[0], cs.env))
                    Q = unparse(symex.expand(posk, cs.env))
                    ok = P == Q
                    why = ('%s computed from the value of pos= (%s)' % (nm, Q)) if ok else (
                        '%s= is the %s of position %s, but pos= is %s at this point' % (nm, nm, P[:60], Q[:60]))
            key = (id(cs.node), nm, ok)
            if key in seen:
                continue
            seen.add(key)
            yield ok, why, cs.node


def moved_error_positions(tree):
    """(statement, variable) for every `<e>.pos = ...` on the variable of an enclosing `except ... as <e>` whose handler
    does not also assign <e>.lineno and <e>.colno"""
    for h in ast.walk(tree):
        if not (isinstance(h, ast.ExceptHandler) and h.name):
            continue
        stores = {}
        for n in ast.walk(h):
            if isinstance(n, ast.Attribute) and isinstance(n.ctx, ast.Store) and isinstance(n.value, ast.Name) \
                    and n.value.id == h.name:
                stores.setdefault(n.attr, []).append(n)
        if 'pos' in stores and not ('lineno' in stores and 'colno' in stores):
            for n in stores['pos']:
                st = n
                while not isinstance(st, ast.stmt):
                    st = getattr(st, '_parent', None)
                    if st is None:
                        break
                yield (st if st is not None else n), h.name


def _handwritten_search(f):
    """a definite defect of a hand-written binary search in `f`, or None: the result variable r is assigned only from
    `mid`, mid = (r + hi) // 2, so r < hi always; if hi starts at len(T) - 1 the last index is unreachable"""
    mids = [a for a in iter_own(f) if isinstance(a, ast.Assign) and len(a.targets) == 1 and isinstance(a.targets[0], ast.Name)
            and isinstance(a.value, ast.BinOp) and isinstance(a.value.op, ast.FloorDiv) and isinstance(a.value.left, ast.BinOp)
            and isinstance(a.value.left.op, ast.Add) and isinstance(a.value.left.left, ast.Name)
            and isinstance(a.value.left.right, ast.Name)]
    if len(mids) != 1 or not any(isinstance(p_, ast.While) for p_ in parents(mids[0])):
        return None
    mid = mids[0].targets[0].id
    ops = {mids[0].value.left.left.id, mids[0].value.left.right.id}
    inits = {}
    for a in iter_own(f):
        if isinstance(a, ast.Assign) and not any(isinstance(p_, ast.While) for p_ in parents(a)):
            for t, v in (zip(a.targets[0].elts, a.value.elts) if isinstance(a.targets[0], ast.Tuple) and isinstance(a.value, ast.Tuple)
                         else [(a.targets[0], a.value)]):
                if isinstance(t, ast.Name) and t.id in ops:
                    inits[t.id] = v
    env = affine.single_assign_env(f)
    for name, v in inits.items():
        try:
            nf = affine.norm(v, env)
        except affine.NotAffine:
            continue
        lens = [k for k in nf[1] if k.startswith('len(')]
        if len(lens) == 1 and nf[1][lens[0]] == 1 and len(nf[1]) == 1 and nf[0] <= -1:
            other = sorted(ops - {name})
            return ('the line is found by a hand-written binary search whose upper bound `%s` starts at %s: the result `%s` only '
                    'takes values of `%s = (%s + %s) // 2`, which stay below that bound, so the last entry of the line table '
                    'can never be chosen -- every position on the last line is reported on the line before it, with a column '
                    'past that line\'s end' % (name, unparse(v), other[0] if other else '?', mid, *sorted(ops)))
    return None


def _option_field_paths(init, nm, default):
    """True/False when decidable per path: self.<nm> at every exit of `init` is the option popped under the name <nm>
    (when that is not None) or the constant `default` (when it is None); None when the paths cannot be walked"""
    try:
        cases = symex.Walker(want_exits=True, track_attrs=('self.' + nm,)).run_block(init.body)
    except symex.TooManyPaths:
        return None
    seen = False
    for cs in cases:
        if cs.kind not in ('end', 'return'):
            continue
        v = cs.env.get('self.' + nm)
        if v is None:
            return False
        seen = True
        atoms = {(unparse(symex.expand(a_, cs.env)), ap_) for t_, p_ in cs.conds for a_, ap_ in symex._atoms(t_, p_)}
        full = symex.expand(v, cs.env)
        popped = "kwargs.pop('%s', None)" % nm
        if isinstance(full, ast.Constant):
            if full.value != default or not ((popped + ' is None', True) in atoms or (popped + ' is not None', False) in atoms):
                return False
        elif unparse(full) == popped:
            if not ((popped + ' is None', False) in atoms or (popped + ' is not None', True) in atoms):
                return False
        else:
            return False
    return seen
