# -*- coding: utf-8 -*-
"""Small generic rules shared by several properties (DESIGN.md section 4)."""
import ast
import re
from ..core import iter_own, unparse

_POS_RX = re.compile(r'(^|_)(e?pos|pos_end|pos_start|posi)($|_)')


def is_position_name(txt):
    last = txt.rsplit('.', 1)[-1]
    return bool(_POS_RX.search(last)) and not last.startswith('has_') and \
        last not in ('rewind_pre_space',)


def is_truthiness_of_position(t):
    """`t` is a Name/Attribute denoting a position, used as a boolean."""
    if isinstance(t, ast.UnaryOp) and isinstance(t.op, ast.Not):
        t = t.operand
    if isinstance(t, (ast.Name, ast.Attribute)):
        return is_position_name(unparse(t))
    return False


def truthiness_tests(fn):
    """Yield (expr, enclosing node) for every expression used as a boolean in fn:
    if/while/assert tests, operands of and/or/not, conditional-expression tests."""
    for n in iter_own(fn):
        tests = []
        if isinstance(n, (ast.If, ast.While, ast.IfExp)):
            tests.append(n.test)
        elif isinstance(n, ast.Assert):
            tests.append(n.test)
        elif isinstance(n, ast.BoolOp):
            # all operands but the last of an `or`/`and` chain are tested; the last one is
            # tested too when the BoolOp itself is used as a test (handled via the parent)
            tests.extend(n.values[:-1])
            par = getattr(n, '_parent', None)
            if isinstance(par, (ast.If, ast.While, ast.IfExp, ast.Assert)) and par.test is n:
                tests.append(n.values[-1])
            elif isinstance(par, ast.UnaryOp) and isinstance(par.op, ast.Not):
                tests.append(n.values[-1])
        elif isinstance(n, ast.UnaryOp) and isinstance(n.op, ast.Not):
            tests.append(n.operand)
        for t in tests:
            if isinstance(t, ast.BoolOp):
                continue
            yield t, n


import re as _re
POSLIKE = _re.compile(r'^(pos|start|end|idx|index|offset|lineno|colno|p|i|j|k)$|(^|_)(pos|start|end|idx|index|offset)(_|$)')


def position_truthiness(fn):
    """Yield (name, test expression, enclosing node) where a local that holds a position -- it is
    named like one AND is used as a number in the same function (operand of + / -, slice bound,
    ordering comparison) -- is tested by truthiness: position 0 is then treated like "none"."""
    numeric = set()
    for n in iter_own(fn):
        if isinstance(n, ast.BinOp) and isinstance(n.op, (ast.Add, ast.Sub)):
            for side in (n.left, n.right):
                if isinstance(side, ast.Name):
                    numeric.add(side.id)
        elif isinstance(n, ast.Slice):
            for b in (n.lower, n.upper):
                if isinstance(b, ast.Name):
                    numeric.add(b.id)
        elif isinstance(n, ast.Compare) and len(n.ops) == 1 and isinstance(n.ops[0], (ast.Lt, ast.LtE, ast.Gt, ast.GtE)):
            for side in (n.left, n.comparators[0]):
                if isinstance(side, ast.Name):
                    numeric.add(side.id)
    for t, where in truthiness_tests(fn):
        x = t
        if isinstance(x, ast.Name) and x.id in numeric and POSLIKE.search(x.id):
            yield x.id, t, where
