# -*- coding: utf-8 -*-
"""Shared by C05, C06, C07: escape-set obligations (E3) and crash-construct
obligations (G rules) restricted to the functions reachable from an entry point."""
import json
import ast as ast_mod
import os

from ..core import AnalysisError, VERIF_DIR, short
from .. import engine, grules

_CACHE = {}


def program(repo):
    k = id(repo)
    if k not in _CACHE:
        prog = engine.Program(repo)
        _CACHE[k] = {'prog': prog, 'find': None, 'esc': {}}
    return _CACHE[k]['prog']


def g_findings(repo):
    k = id(repo)
    program(repo)
    if _CACHE[k]['find'] is None:
        _CACHE[k]['find'] = grules.findings(repo, _CACHE[k]['prog'])
    return _CACHE[k]['find']


def escapes(repo, entry, tolerant):
    k = id(repo)
    prog = program(repo)
    key = (entry.key, tolerant)
    if key not in _CACHE[k]['esc']:
        _CACHE[k]['esc'][key] = engine.Escapes(prog, tolerant).run([entry])
    return _CACHE[k]['esc'][key]


def reviewed():
    p = os.path.join(VERIF_DIR, 'data', 'reviewed_raises.json')
    with open(p, encoding='utf-8') as f:
        return json.load(f)['entries']


def escape_obligations(ctx, rule, repo, entry, tolerant, allowed_families, what):
    """One obligation per (exception class, origin raise site) that can leave `entry`."""
    prog = program(repo)
    E = escapes(repo, entry, tolerant)
    rev = reviewed()
    ctx.analysed.setdefault('escape_analysis', {})['%s/%s' % (entry.qual, 'tolerant' if tolerant else 'strict')] = {
        'reachable_functions': len(E.reach), 'fixpoint_iterations': E.iterations,
        'escaping (class, raise site) pairs': len(E.esc[entry.key])}
    n = 0
    for (cls, org), w in sorted(E.esc[entry.key].items()):
        n += 1
        origin_fn = prog.fns.get(w[2][-1])
        path = ' > '.join(k.split(':', 1)[1] for k in w[2][:7])
        cons = 'escape %s from %s: %s' % (cls, w[3], w[1][:60])
        mod = origin_fn.mod if origin_fn is not None else None
        node = None
        if origin_fn is not None:
            import ast
            for x in ast.walk(origin_fn.node):
                if getattr(x, 'lineno', None) == int(org.rsplit(':', 1)[1]) and isinstance(x, (ast.Raise, ast.Assert)):
                    node = x
                    break
        if any(E.is_sub(cls, fam) for fam in allowed_families):
            ctx.holds(rule, mod, node, 'allowed: %s (via %s)' % (what, path), construct=cons)
            continue
        if origin_fn is not None and prog.is_stub(origin_fn):
            ctx.holds(rule, mod, node, 'abstract stub; concrete classes of the package override it',
                      construct=cons, trivial=True)
            continue
        # the message held in a local (`msg = "..."; raise E(msg)`): matched by the text with the
        # local written out
        if node is not None and isinstance(node, ast_mod.Raise) and isinstance(node.exc, ast_mod.Call) and \
                len(node.exc.args) == 1 and isinstance(node.exc.args[0], ast_mod.Name) and origin_fn is not None:
            nm_ = node.exc.args[0].id
            defs_ = [st_.value for st_ in ast_mod.walk(origin_fn.node) if isinstance(st_, ast_mod.Assign)
                     and len(st_.targets) == 1 and isinstance(st_.targets[0], ast_mod.Name) and st_.targets[0].id == nm_]
            if not defs_:
                # ... or in a module-level constant of the raising function's module
                try:
                    defs_ = [origin_fn.mod.toplevel_assign(nm_)]
                except Exception:
                    defs_ = []
                defs_ = [d_ for d_ in defs_ if d_ is not None]
            if len(defs_) == 1:
                import copy as _copy
                n2 = ast_mod.Raise(exc=ast_mod.Call(func=node.exc.func, args=[defs_[0]], keywords=node.exc.keywords), cause=None)
                w = (w[0], ast_mod.unparse(n2), w[2], w[3]) + tuple(w[4:])
        ent = rev.get('%s|%s' % (w[3], cls))
        if ent is None or w[1][:60] not in ent['raises']:
            # the same reviewed raise statement moved into a helper of the same class / module
            scope = w[3].rsplit('.', 1)[0] if '.' in w[3] else ''
            for k_, e_ in rev.items():
                q_, c_ = k_.rsplit('|', 1)
                if c_ == cls and w[1][:60] in e_['raises'] and \
                        (q_.rsplit('.', 1)[0] if '.' in q_ else '') == scope:
                    ent = e_
                    break
        if ent is not None and w[1][:60] in ent['raises']:
            ctx.holds(rule, mod, node, 'reviewed: ' + ent['reason'], construct=cons)
            continue
        ctx.refuted(rule, mod, node,
                    '%s raised in %s can escape from %s (%s configuration) along %s; only %s may '
                    'escape%s' % (cls, w[3], entry.qual, 'tolerant' if tolerant else 'strict', path,
                                  what, '' if ent is None else
                                  ' (the function has reviewed raises, but not this one)'),
                    construct=cons)
    return n


def g_obligations(ctx, rule_prefix, repo, entries, rules=('G1', 'G2', 'G3', 'G4', 'G5', 'G6', 'G7', 'G9', 'G10', 'G11', 'G12', 'G14', 'G15', 'G16', 'G17')):
    """REFUTED obligations for crash constructs in functions reachable from `entries`; one HOLDS
    obligation per rule summarising the scan."""
    prog = program(repo)
    reach = prog.reachable(entries)
    fs = [x for x in g_findings(repo) if x.rule in rules]
    hit = {r: 0 for r in rules}
    for x in fs:
        if x.fnkey not in reach:
            continue
        hit[x.rule] += 1
        path = ' > '.join(k.split(':', 1)[1] for k in prog.path_to(reach, x.fnkey)[:7])
        ctx.refuted(x.rule, x.mod, x.node, x.reason + ' [reachable: %s]' % path, construct=x.construct)
    for r in rules:
        if r == 'G12':
            continue
        if not hit[r]:
            ctx.holds(r, None, None, 'no %s construct in the %d functions reachable from %s'
                      % (r, len(reach), ', '.join(e.qual for e in entries)),
                      construct='%s scan of %d reachable functions' % (r, len(reach)))
    if 'G12' in rules:
        rf = grules.regex_findings(repo)
        for mod_, node_, pat_, d_ in rf:
            ctx.refuted('G12', mod_, node_, 'the pattern %r contains %s: on an input that almost matches (a long '
                        'environment name with one wrong character, a missing closing brace) matching takes '
                        'exponential time -- the call does not return' % (pat_[:80], d_),
                        construct='regex %r' % pat_[:60])
        if not rf:
            ctx.holds('G12', None, None, 'no regular-expression literal of the package nests an unbounded '
                      'repetition inside an unbounded repetition with only optional parts around it',
                      construct='G12 scan of regex literals')
    ctx.analysed['reachable_functions'] = len(reach)
    return reach


G_TEXT = {
    'G1': 'G1: every call of a package class/function binds to its resolved signature '
          '(positional count, known keywords through the **kwargs chain, no duplicates)',
    'G2': 'G2: every name read is bound in its function, module or builtins (comprehension '
          'variables are not visible outside the comprehension)',
    'G3': 'G3: every self.<attr> read is defined somewhere in the class hierarchy',
    'G4': 'G4: no dereference of a value known to be None / of a may-be-None spec lookup result',
    'G5': 'G5: a string is not indexed at a position the same function later/elsewhere compares '
          'against its length unless an in-range fact dominates the use',
    'G6': 'G6: max()/min() of a possibly empty iterable has default= or a non-emptiness guard',
    'G7': 'G7: a constant index into a node/argument list is dominated by a length or truthiness '
          'test of that list',
    'G9': 'G9: a position value is never tested by truthiness',
    'G12': 'G12: no regular-expression literal can backtrack exponentially (nested unbounded repetitions '
           'separated only by optional parts)',
    'G11': 'G11: standard-library calls that raise for part of their domain (unicodedata.name without '
           'default) are given a default or are inside a handler for that exception',
    'G16': 'G16: a value the code itself treats as possibly a dict/list/set is never used as a dictionary key',
    'G17': 'G17: a literal format string names no keyword and numbers no positional argument that its .format() call does '
           'not pass (KeyError / IndexError while an error message is being built)',
    'G15': 'G15: the result of str.find()/rfind() is compared with -1 (or 0) on every path before it is used as a '
           'position',
    'G14': 'G14: a local bound to a lookup with a literal default (pop/get/getattr) is only used through '
           'attributes that the default\'s type has too',
    'G10': 'G10: a fixed module-level table is subscripted only with a literal member key, under a '
           'dominating membership test, or inside a handler for KeyError',
}


def declare_g(ctx, rules=('G1', 'G2', 'G3', 'G4', 'G5', 'G6', 'G7', 'G9', 'G10', 'G11', 'G12', 'G14', 'G15', 'G16', 'G17')):
    for r in rules:
        ctx.rule(r, G_TEXT[r], 1)
