# -*- coding: utf-8 -*-
"""Checker validation: every variant is a small edit of one anchored construct
that still compiles.  The harness copies the package to a scratch directory
outside /repo and /verif, applies one variant, evaluates the property's rules on
the copy and requires a REFUTED obligation of the expected rule; the copy is
deleted straight afterwards.  A variant whose `old` text is no longer present in
the working tree is skipped (the tree has moved on), never counted as detected.
"""
import ast
import importlib
import json
import multiprocessing
import os
import shutil
import sys
import tempfile

from . import core


def evaluate(prop, root, tier='quick'):
    repo = core.Repo(root)
    ctx = core.Ctx(prop, repo, tier)
    mod = importlib.import_module('pxv.rules.' + prop.lower())
    mod.run(ctx)
    return ctx


def _load_variants():
    from . import variants
    vs = list(variants.VARIANTS)
    # changes produced independently by sub-agents and confirmed to break the
    # property while passing the test suite (see /verif/seeded/<id>/meta.json)
    sd = os.path.join(core.VERIF_DIR, 'seeded')
    if os.path.isdir(sd):
        for name in sorted(os.listdir(sd)):
            mp = os.path.join(sd, name, 'meta.json')
            pp = os.path.join(sd, name, 'patch.diff')
            if not (os.path.exists(mp) and os.path.exists(pp)):
                continue
            with open(mp, encoding='utf-8') as f:
                meta = json.load(f)
            det = meta.get('detected_by')
            if not det:
                continue      # recorded as not detectable by this family (see DESIGN.md)
            for prop in (det if isinstance(det, list) else [det]):
                vs.append(dict(id='seeded/%s@%s' % (name, prop), prop=prop, patch=pp, expect='*',
                               note='independent seeded change'))
    # behaviour-preserving refactorings written independently by sub-agents (suite passes and a
    # before/after behaviour dump is identical): every check must stay silent on each of them
    rd = os.path.join(core.VERIF_DIR, 'refactors')
    if os.path.isdir(rd):
        for name in sorted(os.listdir(rd)):
            if name.endswith('.diff'):
                vs.append(dict(id='refactor/%s' % name[:-5], prop='*', patch=os.path.join(rd, name),
                               expect='SILENT', note='behaviour-preserving refactoring'))
    return vs


def _apply_patch(tmp, patch):
    import subprocess
    p = subprocess.run(['patch', '-p1', '-s', '-f', '-d', tmp, '-i', patch],
                       stdout=subprocess.PIPE, stderr=subprocess.STDOUT)
    return p.returncode == 0, p.stdout.decode('utf-8', 'replace')[-300:]


def _one(v):
    root = core.repo_root()
    if 'patch' in v:
        return _one_patch(v, root)
    src = os.path.join(root, v['file'])
    try:
        with open(src, encoding='utf-8') as f:
            text = f.read()
    except IOError:
        return (v['id'], 'skipped', 'file missing')
    if text.count(v['old']) < 1:
        return (v['id'], 'skipped', 'old text not present')
    new_text = text.replace(v['old'], v['new'], 1)
    try:
        ast.parse(new_text)
    except SyntaxError as e:
        return (v['id'], 'error', 'variant does not compile: %s' % e)
    tmp = tempfile.mkdtemp(prefix='pxv_variant_')
    try:
        shutil.copytree(os.path.join(root, 'pylatexenc'), os.path.join(tmp, 'pylatexenc'),
                        ignore=shutil.ignore_patterns('__pycache__'))
        with open(os.path.join(tmp, v['file']), 'w', encoding='utf-8') as f:
            f.write(new_text)
        try:
            ctx = evaluate(v['prop'], tmp)
        except core.AnalysisError as e:
            if v.get('expect') == 'ANALYSIS-ERROR':
                return (v['id'], 'detected', 'analysis error as expected')
            return (v['id'], 'missed', 'analysis error instead of a verdict: %s' % e)
        known = {k['key'] for k in core.load_known_findings()
                 if k.get('property') == v['prop'] and k.get('status') == 'known'}
        ref = [o for o in ctx.obs if o.verdict == core.REFUTED and o.key() not in known]
        if v.get('expect') == 'SILENT':
            if ref:
                return (v['id'], 'missed', 'benign variant raised an alarm: %s %s'
                        % (ref[0].rule, ref[0].reason[:100]))
            return (v['id'], 'detected', 'benign variant stays silent')
        hit = [o for o in ref if o.rule == v['expect'] or v['expect'] == '*']
        if hit:
            return (v['id'], 'detected', '%s: %s' % (hit[0].rule, hit[0].reason[:120]))
        if ref:
            return (v['id'], 'missed', 'fired %s instead of %s' % (sorted({o.rule for o in ref}),
                                                                  v['expect']))
        return (v['id'], 'missed', 'no refuted obligation')
    finally:
        shutil.rmtree(tmp, ignore_errors=True)


def _one_patch(v, root):
    tmp = tempfile.mkdtemp(prefix='pxv_variant_')
    try:
        shutil.copytree(os.path.join(root, 'pylatexenc'), os.path.join(tmp, 'pylatexenc'),
                        ignore=shutil.ignore_patterns('__pycache__'))
        ok, out = _apply_patch(tmp, v['patch'])
        if not ok:
            return (v['id'], 'skipped', 'patch does not apply to the current tree')
        try:
            ctx = evaluate(v['prop'], tmp)
        except core.AnalysisError as e:
            return (v['id'], 'missed', 'analysis error instead of a verdict: %s' % e)
        known = {k['key'] for k in core.load_known_findings()
                 if k.get('property') == v['prop'] and k.get('status') == 'known'}
        ref = [o for o in ctx.obs if o.verdict == core.REFUTED and o.key() not in known]
        if v.get('expect') == 'SILENT':
            unk = [o for o in ctx.obs if o.verdict == core.UNKNOWN]
            low = ctx.floor_failures() if hasattr(ctx, 'floor_failures') else []
            if ref or unk or low:
                o = (ref or unk or [None])[0]
                return (v['id'], 'missed', 'benign refactoring raised an alarm: %s' % (
                    ('%s %s' % (o.rule, o.reason[:100])) if o else 'floor %s' % low))
            return (v['id'], 'detected', 'benign refactoring stays silent')
        if ref:
            return (v['id'], 'detected', '%s: %s' % (ref[0].rule, ref[0].reason[:120]))
        return (v['id'], 'missed', 'no refuted obligation')
    finally:
        shutil.rmtree(tmp, ignore_errors=True)


def run_collect(props):
    vs = []
    for v in _load_variants():
        if v['prop'] == '*':
            for p in (props or ['C%02d' % i for i in range(1, 21)]):
                vs.append(dict(v, prop=p, id='%s@%s' % (v['id'], p)))
        elif not props or v['prop'] in props:
            vs.append(v)
    if not vs:
        return []
    n = min(16, len(vs))
    if n == 1:
        return [_one(v) for v in vs]
    # a fresh pool for every batch of tasks: a check evaluated in-process keeps its syntax trees and caches alive,
    # and sixteen workers that each ran several hundred evaluations exhausted the machine's memory once (the kernel
    # then kills one worker and multiprocessing.Pool waits for its result for ever)
    # every rule module is loaded before the workers are forked: they all run the code as it was when the
    # self-test started, whatever is edited on disk meanwhile
    for i in range(1, 21):
        importlib.import_module('pxv.rules.c%02d' % i)
    out = []
    batch = n * 12
    for i in range(0, len(vs), batch):
        with multiprocessing.Pool(n) as pool:
            out.extend(pool.map(_one, vs[i:i + batch], chunksize=1))
    return out


def run(props, quiet=False):
    res = run_collect(props)
    bad = 0
    for vid, status, why in res:
        if status in ('missed', 'error'):
            bad += 1
        if not quiet or status in ('missed', 'error'):
            sys.stdout.write('selftest %-40s %-8s %s\n' % (vid, status, why))
    sys.stdout.write('selftest: %d variants, %d detected, %d skipped, %d missed\n' % (
        len(res), sum(1 for r in res if r[1] == 'detected'),
        sum(1 for r in res if r[1] == 'skipped'), bad))
    return 1 if bad else 0
