# -*- coding: utf-8 -*-
"""Shape recognisers built on pxv.symex that several rules share.

elementwise(fn, expr): describe how a list-valued expression of function `fn` is built element by
element from one iterable -- as a comprehension, or as `acc = []; for v in it: ... acc.append(x)`
-- as a list of outcomes per structural path of one iteration: (branch decisions, [appended
expressions]).  Rules then state "one result per element", "None elements are skipped", "element
is v.method()" on the outcomes instead of on the source text.
"""
import ast
from .core import unparse, iter_own, call_name, call_recv
from . import symex


class Elementwise(object):
    def __init__(self, iter_expr, var, outcomes, how):
        self.iter_expr, self.var, self.outcomes, self.how = iter_expr, var, outcomes, how

    def facts_of(self, conds):
        out = set()
        for t, pol in conds:
            for a, ap in symex._atoms(t, pol):
                out.add((unparse(a), ap))
        return out


def elementwise(fn, expr):
    """expr: the list-valued expression (a ListComp/GeneratorExp, possibly wrapped in list()/
    tuple(), or a Name bound to an accumulator filled by one for loop of fn).  None if the
    construction is not recognised."""
    e = expr
    while isinstance(e, ast.Call) and call_name(e) in ('list', 'tuple') and len(e.args) == 1:
        e = e.args[0]
    if isinstance(e, (ast.ListComp, ast.GeneratorExp)):
        if len(e.generators) != 1 or not isinstance(e.generators[0].target, ast.Name):
            return None
        g = e.generators[0]
        outcomes = []
        # filters: all true -> element appended (conditional expressions split), else nothing
        conds_true = tuple((t, True) for t in g.ifs)
        for cs, x in symex._split_ifexp(e.elt):
            outcomes.append((conds_true + tuple(cs), [x]))
        for i, t in enumerate(g.ifs):
            outcomes.append((tuple((u, True) for u in g.ifs[:i]) + ((t, False),), []))
        return Elementwise(g.iter, g.target.id, outcomes, 'comprehension')
    if isinstance(e, ast.Name):
        acc = e.id
        inits = [s for s in iter_own(fn) if isinstance(s, ast.Assign) and any(
            isinstance(t, ast.Name) and t.id == acc for t in s.targets)]
        if len(inits) != 1 or not (isinstance(inits[0].value, ast.List) and not inits[0].value.elts):
            return None
        loops = [l for l in iter_own(fn) if isinstance(l, ast.For) and any(
            isinstance(c, ast.Call) and call_name(c) in ('append', 'extend', 'insert')
            and call_recv(c) is not None and unparse(call_recv(c)) == acc for c in ast.walk(l))]
        other = [c for c in iter_own(fn) if isinstance(c, ast.Call) and call_recv(c) is not None
                 and unparse(call_recv(c)) == acc and call_name(c) in (
                     'append', 'extend', 'insert', 'pop', 'remove', 'sort', 'reverse', 'clear')
                 and not any(any(c is x for x in ast.walk(l)) for l in loops)]
        if len(loops) != 1 or other or not isinstance(loops[0].target, ast.Name):
            return None
        lp = loops[0]
        if lp.orelse:
            return None

        def is_sink(c):
            return call_recv(c) is not None and unparse(call_recv(c)) == acc
        try:
            w = symex.Walker(is_sink=is_sink, want_exits=True, trace=True)
            cases = w.run_block(lp.body)
        except symex.TooManyPaths:
            return None
        outcomes = []
        for cs in cases:
            if cs.kind == 'call':
                continue
            if cs.kind in ('break', 'return', 'raise'):
                outcomes.append((tuple(cs.conds), None))        # leaves the loop early
                continue
            apps = []
            for node, sub in cs.env.get('#trace', ()):
                if call_name(sub) == 'append' and len(sub.args) == 1:
                    apps.append(sub.args[0])
                else:
                    apps.append(None)
            outcomes.append((tuple(cs.conds), apps))
        return Elementwise(lp.iter, lp.target.id, outcomes, 'loop')
    return None


def node_dispatch(fn, pred='isNodeType'):
    """{class name: method name} of a type dispatcher: on every returning path, the class named by
    the last isNodeType() test decided true on that path -> the self.<method> call whose result is
    returned (directly, or through a local that holds the call's result).  Form independent:
    `if ..: return self.m(node)` chains, if/elif chains assigning a local, conditional expressions."""
    from . import symex
    out = {}
    try:
        cases = symex.Walker(want_returns=True).run(fn)
    except symex.TooManyPaths:
        return out
    for cs in cases:
        if cs.kind != 'return':
            continue
        cls = None
        for t, pol in cs.conds:
            if pol and isinstance(t, ast.Call) and isinstance(t.func, ast.Attribute) and \
                    t.func.attr == pred and t.args:
                cls = unparse(t.args[0]).rsplit('.', 1)[-1]
        if cls is None:
            continue
        v = symex.resolve(cs.sub, cs.env)
        if isinstance(v, ast.Call) and isinstance(v.func, ast.Attribute) and \
                isinstance(v.func.value, ast.Name) and v.func.value.id == 'self':
            out.setdefault(cls, v.func.attr)
    return out
