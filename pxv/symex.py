"""Syntax-directed guarded-value enumeration ("which value reaches this call on which branch").

Not an executor: nothing is run and no solver is asked.  The statement list of ONE function is
walked structurally; an `if`/conditional expression forks the walk, a local assignment is recorded
in a substitution environment, and every call matching `is_sink` is reported once per structural
path with (a) the list of branch decisions taken and (b) its arguments with local single
definitions substituted in.  Rules then compare normal forms (pxv.affine) of those substituted
arguments instead of matching source fragments, so `x = a if c else b`, an if/else assignment, a
hoisted common statement and an introduced local all give the same cases.

Loops are not unrolled: names assigned in a loop body are forgotten (havoc) before the body is
walked once and again after it.  try: the body is walked, handlers are walked as alternative
continuations from the state at try entry with body-assigned names forgotten.
"""
import ast
import copy
from .core import unparse

MAX_PATHS = 4000


class TooManyPaths(Exception):
    pass


class Case(object):
    __slots__ = ('conds', 'node', 'sub', 'env', 'kind')

    def __init__(self, conds, node, sub, env, kind):
        self.conds, self.node, self.sub, self.env, self.kind = conds, node, sub, env, kind

    def cond_src(self):
        return [('' if pol else 'not ') + unparse(t) for t, pol in self.conds]

    def polarity_of(self, pred):
        """polarity of the first branch decision whose (substituted) test satisfies pred, or None;
        conjunction/disjunction are split when the polarity makes every operand known"""
        for t, pol in self.conds:
            for a, p in _atoms(t, pol):
                if pred(a):
                    return p
        return None

    def __repr__(self):
        return '<%s [%s] %s>' % (self.kind, ' & '.join(self.cond_src()), unparse(self.sub))


def _atoms(t, pol):
    if isinstance(t, ast.Call) and isinstance(t.func, ast.Name) and t.func.id == 'bool' and len(t.args) == 1 \
            and not t.keywords:
        for x in _atoms(t.args[0], pol):        # bool(e) decides like e
            yield x
        return
    if isinstance(t, ast.UnaryOp) and isinstance(t.op, ast.Not):
        for x in _atoms(t.operand, not pol):
            yield x
    elif isinstance(t, ast.BoolOp) and ((isinstance(t.op, ast.And) and pol) or
                                        (isinstance(t.op, ast.Or) and not pol)):
        for v in t.values:
            for x in _atoms(v, pol):
                yield x
    else:
        yield t, pol


def clone(node):
    """structural copy of an AST (fields only: the index's _parent back-pointers are not followed)"""
    if isinstance(node, list):
        return [clone(x) for x in node]
    if not isinstance(node, ast.AST):
        return node
    new = node.__class__()
    for f in node._fields:
        if hasattr(node, f):
            setattr(new, f, clone(getattr(node, f)))
    for a in ('lineno', 'col_offset', 'end_lineno', 'end_col_offset'):
        if hasattr(node, a):
            setattr(new, a, getattr(node, a))
    return new


class _Subst(ast.NodeTransformer):
    def __init__(self, env):
        self.env = env
        self.has_attrs = any('.' in k for k in env if isinstance(k, str))

    def visit_Attribute(self, n):
        if self.has_attrs and isinstance(n.ctx, ast.Load):
            k = unparse(n)
            if k in self.env and self.env[k] is not None:
                return clone(self.env[k])
        return self.generic_visit(n)

    def visit_Name(self, n):
        if isinstance(n.ctx, ast.Load) and n.id in self.env and self.env[n.id] is not None:
            return clone(self.env[n.id])
        return n

    def visit_Lambda(self, n):
        return n

    def visit_ListComp(self, n):
        return n
    visit_SetComp = visit_DictComp = visit_GeneratorExp = visit_ListComp


def subst(expr, env):
    return _Subst(env).visit(clone(expr))


PURE_BUILTINS = ('len', 'getattr', 'int', 'str', 'ord', 'chr', 'min', 'max', 'abs', 'isinstance',
                 'bool', 'tuple', 'repr', 'dict', 'hasattr')


def _has_call(e, extra=()):
    """does evaluating e call anything other than a side-effect-free builtin"""
    if e is None:
        return False
    for n in ast.walk(e):
        if isinstance(n, ast.Await):
            return True
        if isinstance(n, ast.Call) and not ((isinstance(n.func, ast.Name) and (
                n.func.id in PURE_BUILTINS or n.func.id in extra)) or (
                isinstance(n.func, ast.Attribute) and n.func.attr in extra)):
            return True
    return False


def _assigned_names(stmts):
    out = set()
    for s in stmts:
        for n in ast.walk(s):
            if isinstance(n, ast.Name) and isinstance(n.ctx, (ast.Store, ast.Del)):
                out.add(n.id)
    return out


def _const_truth(t):
    """True/False when the substituted test is a literal (dead branch pruning), else None"""
    if isinstance(t, ast.Constant):
        return bool(t.value)
    if isinstance(t, ast.UnaryOp) and isinstance(t.op, ast.Not):
        k = _const_truth(t.operand)
        return None if k is None else (not k)
    if isinstance(t, ast.Compare) and len(t.ops) == 1 and isinstance(t.left, ast.Constant) and \
            isinstance(t.comparators[0], ast.Constant) and isinstance(t.ops[0], (ast.Is, ast.IsNot)) \
            and (t.left.value is None or t.comparators[0].value is None):
        same = t.left.value is t.comparators[0].value
        return same if isinstance(t.ops[0], ast.Is) else not same
    return None


def _split_ifexp(expr):
    """[(conds, expr')] with top-level conditional expressions (through BinOp/parentheses) split"""
    if isinstance(expr, ast.IfExp):
        out = []
        for cs, e in _split_ifexp(expr.body):
            out.append(([(expr.test, True)] + cs, e))
        for cs, e in _split_ifexp(expr.orelse):
            out.append(([(expr.test, False)] + cs, e))
        return out
    if isinstance(expr, ast.BinOp):
        out = []
        for cl, l in _split_ifexp(expr.left):
            for cr, r in _split_ifexp(expr.right):
                out.append((cl + cr, ast.BinOp(left=l, op=expr.op, right=r)))
        return out
    return [([], expr)]


class Walker(object):
    """walk(fn) -> list of Case for sink calls / returns / raises"""

    def __init__(self, is_sink=None, want_returns=False, want_raises=False, max_paths=MAX_PATHS,
                 inline_limit=400, want_exits=False, pure=(), sink_types=(ast.Call,),
                 track_attrs=(), trace=False, merge=False, stmt_sink=None):
        # stmt_sink(stmt) -> True: the statement itself is recorded in the path trace
        self.stmt_sink = stmt_sink
        self.trace = trace
        self.merge = merge
        # track_attrs: attribute chains (e.g. 'p.pos') treated like local variables; only sound
        # where no call in the walked code writes them (the rule using it says why)
        self.track_attrs = tuple(track_attrs)
        self.sink_types = sink_types
        self.pure = tuple(pure)
        self.want_exits = want_exits
        self.is_sink = is_sink or (lambda c: False)
        self.params = set()
        self.want_returns, self.want_raises = want_returns, want_raises
        self.max_paths = max_paths
        self.inline_limit = inline_limit
        self.cases = []
        self.npaths = 0

    def run(self, fn, env=None):
        self.cases = []
        self.npaths = 0
        a = fn.args
        self.params = {x.arg for x in list(a.args) + list(a.kwonlyargs) + list(getattr(a, 'posonlyargs', []))}
        if a.vararg:
            self.params.add(a.vararg.arg)
        if a.kwarg:
            self.params.add(a.kwarg.arg)
        finals = self._block(fn.body, [(dict(env or {}), ())])
        self.npaths += len(finals)
        return self.cases

    def run_block(self, stmts, env=None, conds=()):
        """walk a statement list (e.g. one loop body); with want_exits, every way of leaving it
        is reported as a Case of kind 'end' / 'break' / 'continue' / 'return' / 'raise' whose
        .env is the substitution environment at that point"""
        self.cases = []
        finals = self._block(stmts, [(dict(env or {}), tuple(conds))])
        if self.want_exits:
            for env, cs in finals:
                self.cases.append(Case(list(cs), None, None, dict(env), 'end'))
        return self.cases

    # states: list of (env, conds)
    def _block(self, stmts, states):
        for s in stmts:
            if not states:
                break
            states = self._stmt(s, states)
            if len(states) > self.max_paths:
                raise TooManyPaths('%d structural paths' % len(states))
        return states

    def _sinks_in(self, node, env, conds):
        """record sink occurrences inside `node`; returns the environment (extended by the
        event trace '#trace' when tracing is on: the ordered sink calls seen on this path)"""
        for n in ast.walk(node):
            if isinstance(n, self.sink_types) and self.is_sink(n):
                sub = subst(n, env)
                self.cases.append(Case(list(conds), n, sub, dict(env), 'call'))
                if self.trace:
                    env = dict(env)
                    env['#trace'] = env.get('#trace', ()) + ((n, sub),)
        return env

    @staticmethod
    def _merge(states, ncommon):
        """join point: states whose environments bind every name to the very same value object
        differ only in branch decisions that assigned nothing; they are merged, keeping the
        decisions they share -- the dropped decisions cannot influence any value seen later"""
        if len(states) < 2:
            return states
        out, seen = [], {}
        for env, conds in states:
            key = tuple(sorted((k, id(v)) for k, v in env.items()))
            if key in seen:
                i = seen[key]
                e0, c0 = out[i]
                if c0 != conds:
                    n = 0
                    while n < len(c0) and n < len(conds) and c0[n] is conds[n]:
                        n += 1
                    out[i] = (e0, c0[:n])
                continue
            seen[key] = len(out)
            out.append((env, conds))
        return out

    def _bind(self, env, name, value, site=None, tag=''):
        """value None = opaque.  A name that already had a meaning on this path (an earlier
        binding or a parameter) gets a fresh versioned symbol `name@<line><tag>` so that
        expressions substituted earlier, which still mention the old value by its plain name,
        are not confused with the new value."""
        env = dict(env)
        if value is not None and len(unparse(value)) > self.inline_limit:
            value = None
        if value is None and (name in env or name in self.params):
            value = ast.Name(id='%s@%s%s' % (name, getattr(site, 'lineno', '?'), tag), ctx=ast.Load())
        env[name] = value
        return env

    def _havoc(self, env, names, site, tag):
        for k in sorted(names):
            env = self._bind(env, k, None, site, tag)
        return env

    def _stmt(self, s, states):
        out = []
        if self.stmt_sink is not None and self.stmt_sink(s):
            st2 = []
            for env, conds in states:
                env = dict(env)
                env['#trace'] = env.get('#trace', ()) + ((s, None),)
                st2.append((env, conds))
            states = st2
        if isinstance(s, ast.If):
            t_states, f_states = [], []
            for env, conds in states:
                env = self._sinks_in(s.test, env, conds)
                t = subst(s.test, env)
                k = _const_truth(t)
                if k is not False:
                    t_states.append((env, conds + ((t, True),)))
                if k is not True:
                    f_states.append((env, conds + ((t, False),)))
            res = self._block(s.body, t_states) + self._block(s.orelse, f_states)
            return self._merge(res, 0) if self.merge else res
        if isinstance(s, (ast.For, ast.While, ast.AsyncFor)):
            killed = _assigned_names(s.body) | _assigned_names(getattr(s, 'orelse', []))
            if isinstance(s, ast.For):
                killed |= _assigned_names([s.target])
            st2 = []
            for env, conds in states:
                env = self._havoc(env, killed, s, 'l')
                hdr = s.iter if isinstance(s, ast.For) else s.test
                env = self._sinks_in(hdr, env, conds)
                st2.append((env, conds))
            body_conds = []
            for env, conds in st2:
                if isinstance(s, ast.While):
                    body_conds.append((env, conds + ((subst(s.test, env), True),)))
                else:
                    body_conds.append((env, conds))
            inner = self._block(s.body, body_conds)   # cases recorded; exits dropped
            res = []
            for env, conds in st2:
                res.append((self._havoc(env, killed, s, 'x'), conds))
            if s.orelse:
                res = self._block(s.orelse, res)
            return res
        if isinstance(s, ast.Try):
            killed = _assigned_names(s.body)
            after = self._block(s.body, states)
            hstates = []
            for env, conds in states:
                hstates.append((self._havoc(env, killed, s, 't'), conds))
            for h in s.handlers:
                hs = hstates
                if h.name:
                    hs = [(self._bind(e, h.name, None, h), c) for e, c in hs]
                after = after + self._block(h.body, hs)
            if s.orelse:
                after = self._block(s.orelse, after)
            if s.finalbody:
                after = self._block(s.finalbody, after)
            return after
        if isinstance(s, ast.With):
            st2 = []
            for env, conds in states:
                for it in s.items:
                    env = self._sinks_in(it.context_expr, env, conds)
                    if it.optional_vars is not None:
                        for n_ in ast.walk(it.optional_vars):
                            if isinstance(n_, ast.Name):
                                env = self._bind(env, n_.id, None, s)
                st2.append((env, conds))
            return self._block(s.body, st2)
        if isinstance(s, (ast.FunctionDef, ast.AsyncFunctionDef, ast.ClassDef)):
            return [(self._bind(env, s.name, None, s), conds) for env, conds in states]
        if isinstance(s, ast.Return):
            for env, conds in states:
                if s.value is not None:
                    for cs, e in _split_ifexp(s.value):
                        c2 = conds + tuple((subst(t, env), p) for t, p in cs)
                        env_r = self._sinks_in(e, env, c2)
                        if self.want_returns:
                            self.cases.append(Case(list(c2), s, subst(e, env), dict(env_r), 'return'))
                elif self.want_returns:
                    self.cases.append(Case(list(conds), s, ast.Constant(value=None), dict(env), 'return'))
                if self.want_exits and not self.want_returns:
                    self.cases.append(Case(list(conds), s, None, dict(env), 'return'))
            self.npaths += len(states)
            return []
        if isinstance(s, ast.Raise):
            for env, conds in states:
                if s.exc is not None:
                    env = self._sinks_in(s.exc, env, conds)
                if self.want_exits and not self.want_raises:
                    self.cases.append(Case(list(conds), s, None, dict(env), 'raise'))
                if self.want_raises:
                    self.cases.append(Case(list(conds), s, subst(s.exc, env) if s.exc is not None
                                           else ast.Constant(value=None), dict(env), 'raise'))
            self.npaths += len(states)
            return []
        if isinstance(s, (ast.Break, ast.Continue)):
            if self.want_exits:
                for env, conds in states:
                    self.cases.append(Case(list(conds), s, None, dict(env),
                                           'break' if isinstance(s, ast.Break) else 'continue'))
            return []
        if isinstance(s, ast.Assign):
            for env, conds in states:
                for cs, e in _split_ifexp(s.value):
                    c2 = conds + tuple((subst(t, env), p) for t, p in cs)
                    val = subst(e, env)
                    env2 = self._sinks_in(e, env, c2)
                    for tg in s.targets:
                        env2 = self._assign_target(env2, tg, val, c2, s)
                    out.append((env2, c2))
            return out
        if isinstance(s, ast.AugAssign):
            for env, conds0 in states:
                for cs, e in _split_ifexp(s.value):
                    conds = conds0 + tuple((subst(t, env), p) for t, p in cs)
                    rhs = subst(e, env)
                    env = self._sinks_in(e, env, conds)
                    if isinstance(s.target, ast.Name):
                        cur = env.get(s.target.id)
                        if cur is None:
                            # parameter / first opaque binding: the name denotes itself
                            cur = ast.Name(id=s.target.id, ctx=ast.Load())
                        new = ast.BinOp(left=clone(cur), op=s.op, right=rhs)
                        out.append((self._bind(env, s.target.id, new, s), conds))
                    elif isinstance(s.target, ast.Attribute) and unparse(s.target) in self.track_attrs:
                        k = unparse(s.target)
                        cur = env.get(k)
                        if cur is None:
                            cur = clone(s.target)
                            cur.ctx = ast.Load()
                        new = ast.BinOp(left=clone(cur), op=s.op, right=rhs)
                        env2 = dict(env)
                        env2[k] = new
                        out.append((env2, conds))
                    else:
                        out.append((env, conds))
            return out
        if isinstance(s, ast.AnnAssign):
            for env, conds in states:
                if s.value is not None:
                    val = subst(s.value, env)
                    env = self._sinks_in(s.value, env, conds)
                    if isinstance(s.target, ast.Name):
                        env = self._bind(env, s.target.id, val)
                out.append((env, conds))
            return out
        # Expr, Assert, Delete, Pass, Global, Import ...
        for env, conds in states:
            env = self._sinks_in(s, env, conds)
            c_ = s.value if isinstance(s, ast.Expr) else None
            if isinstance(c_, ast.Call) and isinstance(c_.func, ast.Attribute) and \
                    c_.func.attr in ('extend', 'append') and isinstance(c_.func.value, ast.Name) and \
                    len(c_.args) == 1 and not c_.keywords and \
                    c_.func.value.id in env and not _has_call(c_.args[0], self.pure):
                # in-place growth of a local list whose value is tracked: x.extend(E) is x = x + E,
                # x.append(E) is x = x + [E] (same modelling as `x += E`)
                nm_ = c_.func.value.id
                rhs = subst(c_.args[0], env)
                if c_.func.attr == 'append':
                    rhs = ast.List(elts=[rhs], ctx=ast.Load())
                cur = env[nm_] if isinstance(env[nm_], ast.AST) else ast.Name(id=nm_, ctx=ast.Load())
                env = self._bind(env, nm_, ast.BinOp(left=clone(cur), op=ast.Add(), right=rhs), s)
            if isinstance(s, ast.Delete):
                for k in _assigned_names([s]):
                    env = self._bind(env, k, None, s)
            out.append((env, conds))
        return out

    def _assign_target(self, env, tg, val, conds, site=None):
        if isinstance(tg, ast.Name):
            if isinstance(val, (ast.Await, ast.Yield, ast.YieldFrom)) or _has_call(val, self.pure):
                # results of calls are not re-evaluated at the use site: opaque symbol, the
                # defining expression is kept for rules that want it
                env = self._bind(env, tg.id, None, site)
                env = dict(env)
                env.setdefault('#def', {})
                env['#def'] = dict(env['#def'])
                sym = env[tg.id]
                env['#def'][unparse(sym) if sym is not None else tg.id] = val
                return env
            return self._bind(env, tg.id, val, site)
        if isinstance(tg, (ast.Tuple, ast.List)):
            if isinstance(val, (ast.Tuple, ast.List)) and len(val.elts) == len(tg.elts) and \
                    not any(isinstance(e, ast.Starred) for e in list(tg.elts) + list(val.elts)):
                # simultaneous assignment: all right-hand sides are already substituted
                for t2, v2 in zip(tg.elts, val.elts):
                    env = self._assign_target(env, t2, v2, conds, site)
                return env
            env = dict(env)
            env.setdefault('#def', {})
            env['#def'] = dict(env['#def'])
            for i, n in enumerate(tg.elts):
                if isinstance(n, ast.Name):
                    env = self._bind(env, n.id, None, site, tag='.%d' % i)
                    sym = env[n.id]
                    env['#def'][unparse(sym) if sym is not None else n.id] = ('item', i, len(tg.elts), val)
                else:
                    for n2 in ast.walk(n):
                        if isinstance(n2, ast.Name):
                            env = self._bind(env, n2.id, None, site)
            return env
        if isinstance(tg, ast.Attribute) and unparse(tg) in self.track_attrs:
            env = dict(env)
            env[unparse(tg)] = val
            return env
        return env   # attribute / subscript stores do not change local names


def expand(expr, env, depth=3):
    """replace opaque symbols that stand for a call result by their defining expression (for
    comparison only: the call is not re-evaluated)"""
    defs = env.get('#def', {})
    for _ in range(depth):
        m = dict((k, v) for k, v in defs.items() if isinstance(v, ast.AST))
        names = {n.id for n in ast.walk(expr) if isinstance(n, ast.Name)}
        if not (names & set(m)):
            break
        expr = _Subst(m).visit(clone(expr))
    return expr


_POS_OP = {ast.IsNot: ast.Is, ast.NotEq: ast.Eq, ast.NotIn: ast.In}


def canon(a, pol):
    """canonical (text, polarity) of an atomic fact: negative comparison operators are turned
    into their positive form with flipped polarity (`x is not None` true == `x is None` false)"""
    if isinstance(a, ast.Compare) and len(a.ops) == 1 and type(a.ops[0]) in _POS_OP:
        b = ast.Compare(left=a.left, ops=[_POS_OP[type(a.ops[0])]()], comparators=a.comparators)
        return unparse(b), (not pol)
    return unparse(a), pol


def inline_simple_methods(expr, methods, selfname='self'):
    """replace calls self.m(args) by m's returned expression when m's body is a single return
    (a named predicate extracted from a condition), parameters substituted"""
    class T(ast.NodeTransformer):
        def visit_Call(self, n):
            self.generic_visit(n)
            if isinstance(n.func, ast.Attribute) and isinstance(n.func.value, ast.Name) and \
                    n.func.value.id == selfname and n.func.attr in methods and not n.keywords:
                m = methods[n.func.attr]
                body = [st for st in m.body if not (isinstance(st, ast.Expr) and isinstance(st.value, ast.Constant))]
                params = [a.arg for a in m.args.args][1:]
                if len(body) == 1 and isinstance(body[0], ast.Return) and body[0].value is not None \
                        and len(params) == len(n.args):
                    return subst(body[0].value, dict(zip(params, n.args)))
            return n
    return T().visit(clone(expr))


def facts_of(conds, env=None, methods=None, also=()):
    """set of canonical (text, polarity) atoms of a list of branch decisions (plus the atoms of
    the expressions in `also`, taken as true); opaque symbols expanded when env is given, simple
    predicate methods inlined when `methods` is given"""
    out = set()
    items = list(conds) + [(e, True) for e in also]
    for t, pol in items:
        if env is not None:
            t = expand(t, env)
        if methods:
            t = inline_simple_methods(t, methods)
        for a, ap in _atoms(t, pol):
            out.add(canon(a, ap))
    return out


def resolve(expr, env):
    """the defining call of an opaque symbol (one level), else the expression itself"""
    if isinstance(expr, ast.Name):
        d = env.get('#def', {}).get(expr.id)
        if isinstance(d, ast.AST):
            return d
    return expr


def item_def(sym, env):
    """('item', index, arity, call) if the symbol was bound by tuple-unpacking a call result"""
    d = env.get('#def', {}).get(sym)
    return d if isinstance(d, tuple) else None


def sink_cases(fn, is_sink, **kw):
    return Walker(is_sink=is_sink, **kw).run(fn)


def return_cases(fn, **kw):
    return [c for c in Walker(want_returns=True, **kw).run(fn) if c.kind == 'return']


def inline_stmt_helpers(fn, methods, selfname='self', depth=2):
    """clone of `fn` in which every expression statement `self.m(a1..an)` (m in `methods`, a method
    of the same class that returns no value: checks extracted into a private helper) is replaced by
    m's body with the parameters renamed to the argument names.  Only done when it is exact: the
    arguments are plain names, m has plain positional parameters, no `return` inside m except a
    bare one as its last statement, and m's own local names do not clash with names of `fn`."""
    from .core import set_parents

    def _ok_helper(m, call):
        a = m.args
        if a.vararg or a.kwarg or a.kwonlyargs or a.defaults or call.keywords:
            return None
        params = [p.arg for p in a.args]
        if params and params[0] == selfname:
            params = params[1:]
        if len(params) != len(call.args) or not all(isinstance(x, ast.Name) for x in call.args):
            return None
        body = [st for st in m.body if not (isinstance(st, ast.Expr) and isinstance(st.value, ast.Constant)
                                            and isinstance(st.value.value, str))]
        if body and isinstance(body[-1], ast.Return) and body[-1].value is None:
            body = body[:-1]
        for st in body:
            for x in ast.walk(st):
                if isinstance(x, (ast.Return, ast.Yield, ast.YieldFrom, ast.FunctionDef, ast.Lambda, ast.Global,
                                  ast.Nonlocal)):
                    return None
        ren = dict(zip(params, [x.id for x in call.args]))
        local = _assigned_names(body)
        if local & set(params):
            return None
        outer = set(n.id for n in ast.walk(fn) if isinstance(n, ast.Name)) | set(p.arg for p in fn.args.args)
        if (local - set(params)) & outer:
            return None
        return body, ren

    class Ren(ast.NodeTransformer):
        def __init__(self, ren):
            self.ren = ren

        def visit_Name(self, n):
            if n.id in self.ren:
                n.id = self.ren[n.id]
            return n

    def _expand(stmts, d):
        out = []
        for st in stmts:
            c = st.value if isinstance(st, ast.Expr) else None
            if d > 0 and isinstance(c, ast.Call) and isinstance(c.func, ast.Attribute) and \
                    isinstance(c.func.value, ast.Name) and c.func.value.id == selfname and c.func.attr in methods:
                r = _ok_helper(methods[c.func.attr], c)
                if r is not None:
                    body, ren = r
                    new = [Ren(ren).visit(clone(b)) for b in body]
                    out.extend(_expand(new, d - 1))
                    continue
            for fld in ('body', 'orelse', 'finalbody'):
                v = getattr(st, fld, None)
                if isinstance(v, list) and v and isinstance(v[0], ast.stmt):
                    setattr(st, fld, _expand(v, d))
            for h in getattr(st, 'handlers', []) or []:
                h.body = _expand(h.body, d)
            out.append(st)
        return out

    new = clone(fn)
    new.body = _expand(new.body, depth)
    par = getattr(fn, '_parent', None)
    set_parents(new)
    new._parent = par
    return new


def return_cases_inlined(fn, methods, selfname='self', **kw):
    """return cases of `fn`; where the returned value is a call of a method of the same class
    (`self.m(..)`), the case is replaced by m's own return cases with its parameters replaced by
    the arguments and its branch decisions added -- a result-building helper is seen through"""
    out = []
    for cs in return_cases(fn, **kw):
        v = resolve(cs.sub, cs.env)
        m = None
        if isinstance(v, ast.Call) and isinstance(v.func, ast.Attribute) and isinstance(v.func.value, ast.Name) and \
                v.func.value.id in (selfname, 'cls') and v.func.attr in methods and not any(k.arg is None for k in v.keywords):
            m = methods[v.func.attr]
        if m is None:
            out.append(cs)
            continue
        params = [a.arg for a in m.args.args]
        is_static = any(isinstance(d, ast.Name) and d.id == 'staticmethod' for d in m.decorator_list)
        if not is_static and params and params[0] in (selfname, 'cls'):
            params = params[1:]
        ren = dict(zip(params, v.args))
        ren.update((k.arg, k.value) for k in v.keywords if k.arg)
        try:
            inner = return_cases(m, **kw)
        except TooManyPaths:
            out.append(cs)
            continue
        for ic in inner:
            c2 = Case(list(cs.conds) + [(subst(t, ren), p) for t, p in ic.conds], cs.node, subst(ic.sub, ren),
                      dict(cs.env), 'return')
            out.append(c2)
    return out


def const_truth(t):
    """truth value of a comparison between constants (==, !=, in, not in, is, is not over constants and displays of
    constants), or None when `t` is not such a closed expression"""
    if isinstance(t, ast.Constant):
        return bool(t.value)
    if not (isinstance(t, ast.Compare) and len(t.ops) == 1):
        return None

    def val(e):
        if isinstance(e, ast.Constant):
            return True, e.value
        if isinstance(e, (ast.Tuple, ast.List, ast.Set)) and all(isinstance(x, ast.Constant) for x in e.elts):
            return True, tuple(x.value for x in e.elts)
        return False, None
    (ok1, a), (ok2, b) = val(t.left), val(t.comparators[0])
    if not (ok1 and ok2):
        return None
    op = t.ops[0]
    try:
        if isinstance(op, (ast.Eq, ast.Is)):
            return a == b
        if isinstance(op, (ast.NotEq, ast.IsNot)):
            return a != b
        if isinstance(op, ast.In):
            return a in b
        if isinstance(op, ast.NotIn):
            return a not in b
    except TypeError:
        return None
    return None


def infeasible(conds, assume=None):
    """True when the path conditions contain a closed comparison whose value contradicts the polarity the path took --
    after replacing the expressions named in `assume` ({source text: constant}) by their constants.  (A symbolic walker
    forks on every test; this prunes the forks that no run can take.)"""
    env = {}
    for k, v in (assume or {}).items():
        env[k] = ast.Constant(value=v)
    for t, pol in conds:
        for a, ap in _atoms(t, pol):
            a2 = a
            if env:
                a2 = _AssumeSubst(env).visit(clone(a))
            tv = const_truth(a2)
            if tv is not None and tv != ap:
                return True
    return False


class _AssumeSubst(ast.NodeTransformer):
    def __init__(self, env):
        self.env = env

    def generic_visit(self, node):
        if isinstance(node, ast.expr):
            try:
                txt = ast.unparse(node)
            except Exception:
                txt = None
            if txt in self.env:
                return self.env[txt]
        return super().generic_visit(node)


def inline_value_helpers(expr, methods, selfname='self', depth=2):
    """replace every call `self.h(args)` in `expr`, h a method in `methods` with exactly one returning path, by the
    value that path returns (its locals expanded, its parameters replaced by the arguments): an extracted
    'compute this value' helper is read as the expression it computes"""
    if depth <= 0:
        return expr

    class T(ast.NodeTransformer):
        def visit_Call(self, n):
            self.generic_visit(n)
            if isinstance(n.func, ast.Attribute) and isinstance(n.func.value, ast.Name) and n.func.value.id == selfname \
                    and n.func.attr in methods and not any(k.arg is None for k in n.keywords):
                h = methods[n.func.attr]
                try:
                    rcs = [c for c in return_cases(h) if c.kind == 'return']
                except TooManyPaths:
                    return n
                if len(rcs) != 1 or rcs[0].conds:
                    return n
                params = [a.arg for a in h.args.args][1:]
                ren = dict(zip(params, n.args))
                ren.update((k.arg, k.value) for k in n.keywords if k.arg)
                v = expand(rcs[0].sub, rcs[0].env, depth=6)
                return inline_value_helpers(subst(v, ren), methods, selfname, depth - 1)
            return n
    return T().visit(clone(expr))


def expand_helper_value(cs, methods, selfname='self', **kw):
    """if the value of case `cs` is a call `self.h(args)` of a method in `methods`, the list of cases that stand for
    it: one per returning path of h, with h's branch decisions (parameters replaced by the arguments) added to the
    path conditions of cs and h's returned value in place of the call; otherwise [cs]"""
    v = cs.sub
    if not (isinstance(v, ast.Call) and isinstance(v.func, ast.Attribute) and isinstance(v.func.value, ast.Name)
            and v.func.value.id == selfname and v.func.attr in methods and not any(k.arg is None for k in v.keywords)):
        d = cs.env.get('#def', {}).get(v.id) if isinstance(v, ast.Name) else None
        if isinstance(d, ast.Call) and isinstance(d.func, ast.Attribute) and isinstance(d.func.value, ast.Name) \
                and d.func.value.id == selfname and d.func.attr in methods:
            v = d
        else:
            return [cs]
    h = methods[v.func.attr]
    params = [a.arg for a in h.args.args][1:]
    ren = dict(zip(params, v.args))
    ren.update((k.arg, k.value) for k in v.keywords if k.arg)
    try:
        inner = [c for c in return_cases(h, **kw) if c.kind == 'return']
    except TooManyPaths:
        return [cs]
    out = []
    for ic in inner:
        out.append(Case(list(cs.conds) + [(subst(t, ren), p) for t, p in ic.conds], cs.node, subst(ic.sub, ren),
                        dict(cs.env), cs.kind))
    return out or [cs]
