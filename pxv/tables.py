# -*- coding: utf-8 -*-
"""E5: declarative-table evaluator.

The default databases are data written as Python literals, constructor calls,
comprehensions over literal tuples and a few tiny helper functions.  This module
interprets exactly that subset of Python over the *source* of the two
_defaultspecs modules (and the encoder maps) and yields records; it fails closed
(AnalysisError) on any form it does not know.  Constructor calls of names that
are imported from other modules are not executed: they become `Rec` objects
(name, positional args, keyword args, ast node).  Lambdas and references to
module functions become `Fn` objects carrying their AST.
"""
import ast
import unicodedata

from .core import AnalysisError, short, unparse, is_version_test


class Rec(object):
    """An un-executed constructor/helper call: Rec('MacroTextSpec', [...], {...})"""
    def __init__(self, name, args, kwargs, node):
        self.name, self.args, self.kwargs, self.node = name, args, kwargs, node

    def __repr__(self):
        return 'Rec(%s, %r, %r)' % (self.name, self.args, self.kwargs)

    def arg(self, i, kw=None, default=None):
        if kw is not None and kw in self.kwargs:
            return self.kwargs[kw]
        if i is not None and i < len(self.args):
            return self.args[i]
        return default


class Fn(object):
    """A callable value: lambda or function definition (not executed by default)."""
    def __init__(self, node, env=None, name=None, closure=None):
        self.node, self.env, self.name, self.closure = node, env, name, closure or {}

    def __repr__(self):
        return 'Fn(%s)' % (self.name or short(self.node, 50))


class Opaque(object):
    def __init__(self, what):
        self.what = what

    def __repr__(self):
        return 'Opaque(%s)' % self.what


class _Return(Exception):
    def __init__(self, value):
        self.value = value


_SAFE_BUILTINS = {'len': len, 'tuple': tuple, 'list': list, 'dict': dict, 'str': str,
                  'range': range, 'sorted': sorted, 'set': set, 'chr': chr, 'ord': ord,
                  'unicode': str, 'unichr': chr, 'int': int, 'bool': bool, 'frozenset': frozenset,
                  'True': True, 'False': False, 'None': None, 'max': max, 'min': min,
                  'enumerate': enumerate, 'zip': zip, 'isinstance': isinstance}


class Interp(object):
    def __init__(self, mod, interpret_functions=(), max_steps=2000000):
        self.mod = mod
        self.env = {}
        self.interpret_functions = set(interpret_functions)
        self.steps = 0
        self.max_steps = max_steps

    # -- module level -----------------------------------------------------
    def run_module(self, stop_after=None):
        for st in self.mod.tree.body:
            self.exec_stmt(st, self.env, top=True)
        return self.env

    def fail(self, node, why):
        raise AnalysisError('table evaluator: %s in %s:%s: %s' % (
            why, self.mod.relpath, getattr(node, 'lineno', '?'), short(node, 100)))

    # -- statements -------------------------------------------------------
    def exec_block(self, stmts, env):
        for st in stmts:
            self.exec_stmt(st, env)

    def exec_stmt(self, st, env, top=False):
        self.steps += 1
        if self.steps > self.max_steps:
            self.fail(st, 'step budget exhausted')
        if isinstance(st, (ast.Import, ast.ImportFrom)):
            for a in st.names:
                nm = (a.asname or a.name).split('.')[0]
                if nm == 'unicodedata':
                    env[nm] = unicodedata
                elif a.name == '*':
                    continue
                else:
                    env.setdefault(nm, Opaque('import:' + (a.asname or a.name)))
                    if isinstance(st, ast.ImportFrom):
                        env[nm] = _Imported(a.name)
            return
        if isinstance(st, ast.Expr):
            if isinstance(st.value, ast.Constant):
                return
            self.eval(st.value, env)
            return
        if isinstance(st, ast.Assign):
            v = self.eval(st.value, env)
            for t in st.targets:
                self.assign(t, v, env)
            return
        if isinstance(st, ast.AugAssign):
            cur = self.eval(_load(st.target), env)
            v = self.eval(st.value, env)
            if isinstance(st.op, ast.Add):
                if isinstance(cur, list):
                    cur.extend(v)
                    return
                self.assign(st.target, cur + v, env)
                return
            self.fail(st, 'augmented assignment operator')
        if isinstance(st, ast.FunctionDef):
            env[st.name] = Fn(st, env, st.name)
            return
        if isinstance(st, ast.ClassDef):
            env[st.name] = _Imported(st.name)
            return
        if isinstance(st, ast.If):
            vt = is_version_test(st.test)
            if vt is None:
                try:
                    vt = bool(self.eval(st.test, env))
                except AnalysisError:
                    if top:
                        return      # module-level conditional that is not table data
                    raise
            self.exec_block(st.body if vt else st.orelse, env)
            return
        if isinstance(st, ast.For):
            it = self.eval(st.iter, env)
            for x in list(it):
                self.assign(st.target, x, env)
                self.exec_block(st.body, env)
            return
        if isinstance(st, ast.Return):
            raise _Return(self.eval(st.value, env) if st.value is not None else None)
        if isinstance(st, (ast.Pass, ast.Global)):
            return
        if isinstance(st, ast.Try):
            # import fall-backs at module level: take the body
            try:
                self.exec_block(st.body, env)
            except AnalysisError:
                if not top:
                    raise
            return
        if isinstance(st, ast.Delete):
            return
        self.fail(st, 'statement kind %s' % type(st).__name__)

    def assign(self, t, v, env):
        if isinstance(t, ast.Name):
            env[t.id] = v
        elif isinstance(t, (ast.Tuple, ast.List)):
            vs = list(v)
            if len(vs) != len(t.elts):
                self.fail(t, 'unpack length')
            for tt, vv in zip(t.elts, vs):
                self.assign(tt, vv, env)
        elif isinstance(t, ast.Subscript):
            c = self.eval(t.value, env)
            c[self.eval(t.slice, env)] = v
        elif isinstance(t, ast.Attribute):
            obj = self.eval(t.value, env)
            if isinstance(obj, Rec):
                obj.kwargs['.' + t.attr] = v
            else:
                self.fail(t, 'attribute store')
        else:
            self.fail(t, 'assignment target')

    # -- expressions ------------------------------------------------------
    def eval(self, e, env):
        self.steps += 1
        if self.steps > self.max_steps:
            self.fail(e, 'step budget exhausted')
        if isinstance(e, ast.Constant):
            return e.value
        if isinstance(e, ast.Name):
            if e.id in env:
                return env[e.id]
            if e.id in self.env:
                return self.env[e.id]
            if e.id in _SAFE_BUILTINS:
                return _SAFE_BUILTINS[e.id]
            return _Imported(e.id)
        if isinstance(e, (ast.List, ast.Tuple, ast.Set)):
            out = []
            for x in e.elts:
                if isinstance(x, ast.Starred):
                    out.extend(self.eval(x.value, env))
                else:
                    out.append(self.eval(x, env))
            return out if isinstance(e, ast.List) else (tuple(out) if isinstance(e, ast.Tuple) else set(out))
        if isinstance(e, ast.Dict):
            d = {}
            for k, v in zip(e.keys, e.values):
                if k is None:
                    d.update(self.eval(v, env))
                else:
                    d[self.eval(k, env)] = self.eval(v, env)
            return d
        if isinstance(e, ast.BinOp):
            l, r = self.eval(e.left, env), self.eval(e.right, env)
            try:
                if isinstance(e.op, ast.Add):
                    if isinstance(l, tuple) and isinstance(r, list):
                        return list(l) + r
                    return l + r
                if isinstance(e.op, ast.Mult):
                    return l * r
                if isinstance(e.op, ast.Mod):
                    return l % r
                if isinstance(e.op, ast.Sub):
                    return l - r
            except TypeError:
                self.fail(e, 'operand types')
            self.fail(e, 'binary operator')
        if isinstance(e, ast.UnaryOp):
            v = self.eval(e.operand, env)
            if isinstance(e.op, ast.Not):
                return not v
            if isinstance(e.op, ast.USub):
                return -v
            self.fail(e, 'unary operator')
        if isinstance(e, ast.BoolOp):
            vals = None
            for x in e.values:
                vals = self.eval(x, env)
                if isinstance(e.op, ast.And) and not vals:
                    return vals
                if isinstance(e.op, ast.Or) and vals:
                    return vals
            return vals
        if isinstance(e, ast.Compare):
            l = self.eval(e.left, env)
            for op, c in zip(e.ops, e.comparators):
                r = self.eval(c, env)
                ok = {ast.Eq: lambda: l == r, ast.NotEq: lambda: l != r, ast.In: lambda: l in r,
                      ast.NotIn: lambda: l not in r, ast.Is: lambda: l is r,
                      ast.IsNot: lambda: l is not r, ast.Lt: lambda: l < r, ast.Gt: lambda: l > r,
                      ast.LtE: lambda: l <= r, ast.GtE: lambda: l >= r}[type(op)]()
                if not ok:
                    return False
                l = r
            return True
        if isinstance(e, ast.IfExp):
            return self.eval(e.body if self.eval(e.test, env) else e.orelse, env)
        if isinstance(e, ast.Lambda):
            # capture default-argument values (closure by default, e.g. c=mcombining)
            clo = {}
            a = e.args
            for arg, d in zip(a.args[len(a.args) - len(a.defaults):], a.defaults):
                try:
                    clo[arg.arg] = self.eval(d, env)
                except AnalysisError:
                    clo[arg.arg] = Opaque('default')
            return Fn(e, env, None, clo)
        if isinstance(e, ast.Subscript):
            c = self.eval(e.value, env)
            if isinstance(e.slice, ast.Slice):
                lo = self.eval(e.slice.lower, env) if e.slice.lower else None
                hi = self.eval(e.slice.upper, env) if e.slice.upper else None
                return c[lo:hi]
            try:
                return c[self.eval(e.slice, env)]
            except (KeyError, IndexError, TypeError):
                self.fail(e, 'subscript')
        if isinstance(e, ast.Attribute):
            obj = self.eval(e.value, env)
            if obj is unicodedata:
                return getattr(unicodedata, e.attr)
            if isinstance(obj, (str, list, dict, tuple)):
                return getattr(obj, e.attr)
            if isinstance(obj, (_Imported, Opaque)):
                return _Imported('%s.%s' % (getattr(obj, 'name', '?'), e.attr))
            if isinstance(obj, Rec):
                if '.' + e.attr in obj.kwargs:
                    return obj.kwargs['.' + e.attr]
                if e.attr in obj.kwargs:
                    return obj.kwargs[e.attr]
                return Opaque('%s.%s' % (obj.name, e.attr))
            self.fail(e, 'attribute of %s' % type(obj).__name__)
        if isinstance(e, (ast.ListComp, ast.GeneratorExp, ast.SetComp)):
            out = []
            self._comp(e.generators, 0, dict(env), lambda en: out.append(self.eval(e.elt, en)))
            return out
        if isinstance(e, ast.DictComp):
            out = {}

            def add(en):
                out[self.eval(e.key, en)] = self.eval(e.value, en)
            self._comp(e.generators, 0, dict(env), add)
            return out
        if isinstance(e, ast.JoinedStr):
            return Opaque('fstring')
        if isinstance(e, ast.Call):
            return self.call(e, env)
        if isinstance(e, ast.Starred):
            return self.eval(e.value, env)
        self.fail(e, 'expression kind %s' % type(e).__name__)

    def _comp(self, gens, i, env, emit):
        if i == len(gens):
            emit(env)
            return
        g = gens[i]
        for x in list(self.eval(g.iter, env)):
            en = dict(env)
            self.assign(g.target, x, en)
            if all(self.eval(c, en) for c in g.ifs):
                self._comp(gens, i + 1, en, emit)

    def call(self, e, env):
        fn = self.eval(e.func, env)
        args = []
        for a in e.args:
            if isinstance(a, ast.Starred):
                args.extend(self.eval(a.value, env))
            else:
                args.append(self.eval(a, env))
        kwargs = {}
        for k in e.keywords:
            if k.arg is None:
                kwargs.update(self.eval(k.value, env))
            else:
                kwargs[k.arg] = self.eval(k.value, env)
        if isinstance(fn, _Imported):
            return Rec(fn.name, args, kwargs, e)
        if isinstance(fn, Fn):
            if isinstance(fn.node, ast.FunctionDef) and (
                    fn.name in self.interpret_functions or self._is_tiny(fn.node)):
                return self.apply(fn, args, kwargs, e)
            return Rec(fn.name or '<lambda>', args, kwargs, e)
        if callable(fn):
            container_method = isinstance(getattr(fn, '__self__', None), (list, dict, set))
            if not container_method and fn not in (len, list, tuple, dict, sorted, enumerate, zip,
                                                   isinstance) and \
                    any(isinstance(a, (Rec, Opaque, Fn, _Imported))
                        for a in list(args) + list(kwargs.values())):
                return Opaque('call:' + short(e, 40))
            try:
                return fn(*args, **kwargs)
            except Exception as ex:   # e.g. unicodedata.lookup of an unknown name
                self.fail(e, 'builtin call failed: %s' % ex)
        self.fail(e, 'call of %r' % (fn,))

    def _is_tiny(self, fdef):
        body = [s for s in fdef.body if not (isinstance(s, ast.Expr) and isinstance(s.value, ast.Constant))]
        return len(body) <= 3 and all(isinstance(s, (ast.Return, ast.Assign, ast.FunctionDef))
                                      for s in body)

    def apply(self, fn, args, kwargs, node):
        a = fn.node.args
        env = dict(fn.env) if fn.env is not self.env else {}
        names = [x.arg for x in a.args]
        defaults = dict(zip(names[len(names) - len(a.defaults):], a.defaults))
        for i, n in enumerate(names):
            if i < len(args):
                env[n] = args[i]
            elif n in kwargs:
                env[n] = kwargs[n]
            elif n in defaults:
                env[n] = self.eval(defaults[n], env)
            else:
                self.fail(node, 'missing argument %s' % n)
        try:
            self.exec_block(fn.node.body, env)
        except _Return as r:
            return r.value
        return None


class _Imported(object):
    def __init__(self, name):
        self.name = name

    def __repr__(self):
        return 'Imported(%s)' % self.name


def _load(t):
    import copy
    t2 = copy.deepcopy(t)
    for n in ast.walk(t2):
        if hasattr(n, 'ctx'):
            n.ctx = ast.Load()
    return t2


# --------------------------------------------------------------------------
# The two default databases


def _spec_list(v, what, mod):
    if not isinstance(v, list):
        raise AnalysisError('table evaluator: %s of %s is not a list (%r)' % (what, mod.relpath, type(v)))
    return v


def _argspec_of(rec):
    """Normalise the arguments declaration of a walker spec record to a list of
    (parser_letter_or_repr, mode) tuples; None if unknown."""
    if rec.name in ('std_macro', 'std_environment'):
        a = rec.args[1:]
        if len(a) == 1:
            spec = a[0]
        elif len(a) == 2:
            if not a[0] and isinstance(a[1], str):
                spec = a[1]
            else:
                spec = ('[' if a[0] else '') + '{' * int(a[1])
        elif len(a) == 0:
            spec = ''
        else:
            return None
        if spec is None:
            spec = ''
        return [(c, None) for c in spec] if isinstance(spec, str) else None
    if rec.name in ('MacroSpec', 'EnvironmentSpec', 'SpecialsSpec'):
        if 'args_parser' in rec.kwargs:
            ap = rec.kwargs['args_parser']
            if isinstance(ap, str):
                return [(c, None) for c in ap]
            return [('<legacy:%s>' % getattr(ap, 'name', '?'), None)]
        al = rec.arg(1, 'arguments_spec_list', '')
        if al is None:
            al = ''
        if isinstance(al, str):
            return [(c, None) for c in al]
        out = []
        for x in al:
            if isinstance(x, str):
                out.append((x, None))
            elif isinstance(x, Rec) and x.name in ('_arg_textmode', '_arg_mathmode'):
                out.append((x.args[0] if x.args else '?',
                            'text' if x.name == '_arg_textmode' else 'math'))
            elif isinstance(x, Rec) and x.name == 'LatexArgumentSpec':
                p = x.arg(0, 'parser')
                delta = x.kwargs.get('parsing_state_delta')
                mode = None
                if isinstance(delta, Rec):
                    mode = {'ParsingStateDeltaEnterMathMode': 'math',
                            'ParsingStateDeltaLeaveMathMode': 'text'}.get(delta.name)
                if isinstance(p, Rec):
                    p = p.arg(0, 'arg_spec', '{') if p.name == 'LatexStandardArgumentParser' \
                        else '<%s>' % p.name
                out.append((p, mode))
            else:
                out.append(('<?>', None))
        return out
    if rec.name == 'std_specials':
        return []
    return None


class WalkerTable(object):
    def __init__(self, repo):
        mod = repo.mod('pylatexenc.latexwalker._defaultspecs')
        it = Interp(mod)
        env = it.run_module()
        specs = env.get('specs')
        if not isinstance(specs, list):
            raise AnalysisError('walker default specs: `specs` list not found')
        self.mod = mod
        self.macros, self.environments, self.specials = {}, {}, {}
        self.categories = []
        for cat, d in specs:
            self.categories.append(cat)
            for kind, store, keyidx in (('macros', self.macros, 0), ('environments', self.environments, 0),
                                        ('specials', self.specials, 0)):
                for rec in _spec_list(d.get(kind, []), kind, mod):
                    if not isinstance(rec, Rec):
                        raise AnalysisError('walker table: unknown entry form %r' % (rec,))
                    name = rec.arg(0, {'macros': 'macroname', 'environments': 'environmentname',
                                       'specials': 'specials_chars'}[kind])
                    if not isinstance(name, str):
                        raise AnalysisError('walker table: entry without a literal name: %s'
                                            % short(rec.node))
                    if name in store and store[name]['category'] != cat:
                        continue      # first category wins (lookup order) ...
                    # ... but inside one category the per-category dict keeps the LAST entry
                    entry = {'rec': rec, 'category': cat, 'args': _argspec_of(rec),
                             'is_math_mode': bool(rec.kwargs.get('is_math_mode') or
                                                  rec.kwargs.get('environment_is_math_mode'))}
                    store[name] = entry


class L2TTable(object):
    def __init__(self, repo):
        mod = repo.mod('pylatexenc.latex2text._defaultspecs')
        it = Interp(mod, interpret_functions=('_greekletters',))
        env = it.run_module()
        specs = env.get('specs')
        if not isinstance(specs, list):
            raise AnalysisError('latex2text default specs: `specs` list not found')
        self.mod = mod
        self.env = env
        self.macros, self.environments, self.specials = {}, {}, {}
        self.all_entries = []
        for cat, d in specs:
            for kind, store in (('macros', self.macros), ('environments', self.environments),
                                ('specials', self.specials)):
                for rec in _spec_list(d.get(kind, []), kind, mod):
                    if not isinstance(rec, Rec) or rec.name not in (
                            'MacroTextSpec', 'EnvironmentTextSpec', 'SpecialsTextSpec'):
                        raise AnalysisError('latex2text table: unknown entry form %r' % (rec,))
                    name = rec.arg(0, {'macros': 'macroname', 'environments': 'environmentname',
                                       'specials': 'specials_chars'}[kind])
                    if not isinstance(name, str):
                        raise AnalysisError('latex2text table: entry without a literal name: %s'
                                            % short(rec.node))
                    repl = rec.arg(1, 'simplify_repl')
                    entry = {'rec': rec, 'category': cat, 'name': name, 'kind': kind, 'repl': repl,
                             'discard': rec.arg(2, 'discard') if kind != 'specials' else None,
                             'has_discard': (kind != 'specials') and ('discard' in rec.kwargs
                                                                      or len(rec.args) > 2)}
                    self.all_entries.append(entry)
                    if name not in store or store[name]['category'] == cat:
                        store[name] = entry     # first category wins, last entry inside a category
