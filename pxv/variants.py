# -*- coding: utf-8 -*-
"""Seeded variants for the checker self-test (see selftest.py).

Each entry: id, prop, file (relative to the repository root), old, new (first
occurrence of `old` is replaced), expect = rule id that must report REFUTED
('SILENT' = benign edit, nothing may fire).  Entries named `revert-Dn` put a
repaired defect back (DESIGN.md section 6)."""

VARIANTS = []


def V(id, prop, file, old, new, expect, note=''):
    VARIANTS.append(dict(id=id, prop=prop, file=file, old=old, new=new, expect=expect, note=note))


CDB = 'pylatexenc/macrospec/_latexcontextdb.py'

V('C14-revert-D9', 'C14', CDB,
  """        self.d[category] = category_dicts

        # rebuild the chain maps so that their list of maps mirrors the
        # category_list item for item (the initial `ChainMap({})` holds a
        # placeholder map, so positions in the two lists need not coincide)
        for which in ('macros', 'environments', 'specials',):
            self.lookup_chain_maps[which].maps[:] = \\
                [ self.d[cat][which] for cat in self.category_list ]""",
  """        for which in ('macros', 'environments', 'specials',):
            insert_fn(self.lookup_chain_maps[which].maps, category_dicts[which])

        self.d[category] = category_dicts""", 'M1',
  'D9: positions computed on category_list applied to maps that start with a placeholder')
V('C14-drop-frozen-guard', 'C14', CDB,
  """        if self.frozen:
            raise RuntimeError("You attempted to modify a frozen LatexContextDb object.")
        self.unknown_environment_spec = environmentspec""",
  """        self.unknown_environment_spec = environmentspec""", 'M3')
V('C14-lookup-wrong-kind', 'C14', CDB,
  "return self.lookup_chain_maps['environments'][environmentname]",
  "return self.lookup_chain_maps['macros'][environmentname]", 'M5')
V('C14-fallback-wrong-kind', 'C14', CDB,
  "            return self.unknown_specials_spec",
  "            return self.unknown_macro_spec", 'M5')
V('C14-specials-nonstrict', 'C14', CDB,
  "if len(specials_chars) > best_match_len and s.startswith(specials_chars, pos):",
  "if len(specials_chars) >= best_match_len and s.startswith(specials_chars, pos):", 'M6')
V('C14-specials-early-exit', 'C14', CDB,
  "                    best_match_len = len(specials_chars)\n",
  "                    best_match_len = len(specials_chars)\n                    break\n", 'M6')
V('C14-extend-no-copy', 'C14', CDB,
  """            d_cat = dict(
                macros=dict(d_cat['macros']),
                environments=dict(d_cat['environments']),
                specials=dict(d_cat['specials']),
            )""",
  """            d_cat = dict(
                macros=dict(d_cat['macros']),
                environments=d_cat['environments'],
                specials=dict(d_cat['specials']),
            )""", 'M4')
V('C14-extend-not-frozen', 'C14', CDB,
  """        new_context.frozen = True

        logger.debug(
            "Latex Context DB %r ---> extended with %r [new cat %s] ---> %r",""",
  """        logger.debug(
            "Latex Context DB %r ---> extended with %r [new cat %s] ---> %r",""", 'M4')
V('C14-filter-polarity', 'C14', CDB,
  "if exclude_categories and cat in exclude_categories:",
  "if exclude_categories and cat not in exclude_categories:", 'M4b')
V('C14-kind-mix-update', 'C14', CDB,
  "d_cat['environments'].update(new_category_dicts['environments'])",
  "d_cat['environments'].update(new_category_dicts['macros'])", 'M7')
V('C14-keyattr', 'C14', CDB,
  "'environments': dict( (e.environmentname, e) for e in environments ),\n            'specials': dict( (s.specials_chars, s) for s in specials ),\n        }\n\n        logger.debug(\"Adding",
  "'environments': dict( (e.environmentname, e) for e in environments ),\n            'specials': dict( (s.specials_chars, s) for s in macros ),\n        }\n\n        logger.debug(\"Adding", 'M2c')
V('C14-benign-rename-local', 'C14', CDB,
  "        best_match_s = None\n",
  "        best_match_s = None  # nothing found yet\n", 'SILENT')
