# -*- coding: utf-8 -*-
"""Seeded variants for the checker self-test (see selftest.py).

Each entry: id, prop, file (relative to the repository root), old, new (first
occurrence of `old` is replaced), expect = rule id that must report REFUTED
('SILENT' = benign edit, nothing may fire).  Entries named `revert-Dn` put a
repaired defect back (DESIGN.md section 6)."""

VARIANTS = []


def V(id, prop, file, old, new, expect, note=''):
    VARIANTS.append(dict(id=id, prop=prop, file=file, old=old, new=new, expect=expect, note=note))


CDB = 'pylatexenc/macrospec/_latexcontextdb.py'

V('C14-revert-D9', 'C14', CDB,
  """        self.d[category] = category_dicts

        # rebuild the chain maps so that their list of maps mirrors the
        # category_list item for item (the initial `ChainMap({})` holds a
        # placeholder map, so positions in the two lists need not coincide)
        for which in ('macros', 'environments', 'specials',):
            self.lookup_chain_maps[which].maps[:] = \\
                [ self.d[cat][which] for cat in self.category_list ]""",
  """        for which in ('macros', 'environments', 'specials',):
            insert_fn(self.lookup_chain_maps[which].maps, category_dicts[which])

        self.d[category] = category_dicts""", 'M1',
  'D9: positions computed on category_list applied to maps that start with a placeholder')
V('C14-drop-frozen-guard', 'C14', CDB,
  """        if self.frozen:
            raise RuntimeError("You attempted to modify a frozen LatexContextDb object.")
        self.unknown_environment_spec = environmentspec""",
  """        self.unknown_environment_spec = environmentspec""", 'M3')
V('C14-lookup-wrong-kind', 'C14', CDB,
  "return self.lookup_chain_maps['environments'][environmentname]",
  "return self.lookup_chain_maps['macros'][environmentname]", 'M5')
V('C14-fallback-wrong-kind', 'C14', CDB,
  "            return self.unknown_specials_spec",
  "            return self.unknown_macro_spec", 'M5')
V('C14-specials-nonstrict', 'C14', CDB,
  "if len(specials_chars) > best_match_len and s.startswith(specials_chars, pos):",
  "if len(specials_chars) >= best_match_len and s.startswith(specials_chars, pos):", 'M6')
V('C14-specials-early-exit', 'C14', CDB,
  "                    best_match_len = len(specials_chars)\n",
  "                    best_match_len = len(specials_chars)\n                    break\n", 'M6')
V('C14-extend-no-copy', 'C14', CDB,
  """            d_cat = dict(
                macros=dict(d_cat['macros']),
                environments=dict(d_cat['environments']),
                specials=dict(d_cat['specials']),
            )""",
  """            d_cat = dict(
                macros=dict(d_cat['macros']),
                environments=d_cat['environments'],
                specials=dict(d_cat['specials']),
            )""", 'M4')
V('C14-extend-not-frozen', 'C14', CDB,
  """        new_context.frozen = True

        logger.debug(
            "Latex Context DB %r ---> extended with %r [new cat %s] ---> %r",""",
  """        logger.debug(
            "Latex Context DB %r ---> extended with %r [new cat %s] ---> %r",""", 'M4')
V('C14-filter-polarity', 'C14', CDB,
  "if exclude_categories and cat in exclude_categories:",
  "if exclude_categories and cat not in exclude_categories:", 'M4b')
V('C14-kind-mix-update', 'C14', CDB,
  "d_cat['environments'].update(new_category_dicts['environments'])",
  "d_cat['environments'].update(new_category_dicts['macros'])", 'M7')
V('C14-keyattr', 'C14', CDB,
  "'environments': dict( (e.environmentname, e) for e in environments ),\n            'specials': dict( (s.specials_chars, s) for s in specials ),\n        }\n\n        logger.debug(\"Adding",
  "'environments': dict( (e.environmentname, e) for e in environments ),\n            'specials': dict( (s.specials_chars, s) for s in macros ),\n        }\n\n        logger.debug(\"Adding", 'M2c')
V('C14-benign-rename-local', 'C14', CDB,
  "        best_match_s = None\n",
  "        best_match_s = None  # nothing found yet\n", 'SILENT')


# ----------------------------------------------------------------------- C15
ILF = 'pylatexenc/latex2text/_inputlatexfile.py'
L2T = 'pylatexenc/latex2text/__init__.py'

V('C15-revert-D10-prefix', 'C15', ILF,
  """    if not dirfull.endswith(os.sep):
        dirfull = dirfull + os.sep
    return fnfull.startswith(dirfull)""",
  """    return fnfull.startswith(dirfull)""", 'R15a',
  'D10a: bare prefix test accepts sibling directory basement for base')
V('C15-revert-D10-ext-after-check', 'C15', ILF,
  """            return ''

    if not os.path.isfile(fnfull):""",
  """            return ''

    if not os.path.exists(fnfull) and os.path.exists(fnfull + '.tex'):
        fnfull = fnfull + '.tex'
    if not os.path.isfile(fnfull):""", 'R15b',
  'D10b: extension added after the check')
V('C15-no-recanonicalise', 'C15', ILF,
  """        fnfull = os.path.realpath(fnfull)
        dirfull = os.path.realpath(tex_input_directory)""",
  """        dirfull = os.path.realpath(tex_input_directory)""", 'R15b')
V('C15-dir-not-canonical', 'C15', ILF,
  "        dirfull = os.path.realpath(tex_input_directory)",
  "        dirfull = os.path.abspath(tex_input_directory)", 'R15b')
V('C15-polarity', 'C15', ILF,
  "        if not _is_path_within_directory(fnfull, dirfull):",
  "        if _is_path_within_directory(fnfull, dirfull):", 'R15a')
V('C15-strict-not-forwarded', 'C15', L2T,
  "return read_latex_file(self.tex_input_directory, self.strict_input, fn)",
  "return read_latex_file(self.tex_input_directory, False, fn)", 'R15c')
V('C15-no-dir-guard', 'C15', L2T,
  """        if self.tex_input_directory is None:
            return ''

        return read_latex_file""",
  """        return read_latex_file""", 'R15c')
V('C15-strict-default', 'C15', L2T,
  "        self.strict_input = True\n", "        self.strict_input = False\n", 'R15c')
V('C15-other-opener', 'C15', L2T,
  """        if not inputtex:
            return ''
""",
  """        if not inputtex:
            try:
                with open(fn) as f:
                    inputtex = f.read()
            except IOError:
                return ''
""", 'R15d')
V('C15-benign-commonpath', 'C15', ILF,
  "        if not _is_path_within_directory(fnfull, dirfull):",
  "        if not (os.path.commonpath([fnfull, dirfull]) == dirfull):", 'SILENT')
V('C15-helper-true-unguarded', 'C15', ILF,
  """    if fnfull == dirfull:
        return True
    if not dirfull.endswith(os.sep):""",
  """    if fnfull.startswith(dirfull):
        return True
    if not dirfull.endswith(os.sep):""", 'R15a')


# ----------------------------------------------------------------------- C17
PS = 'pylatexenc/latexnodes/_parsingstate.py'

V('C17-revert-D13', 'C17', PS,
  """           and 'math_mode_delimiter' not in kwargs \\
           and 'latex_inline_math_delimiters' not in kwargs \\
           and 'latex_display_math_delimiters' not in kwargs:""",
  """           and 'math_mode_delimiter' not in kwargs:""", 'P2',
  'D13: cache key forgets the delimiter lists')
V('C17-key-forgets-display', 'C17', PS,
  """           and 'latex_inline_math_delimiters' not in kwargs \\
           and 'latex_display_math_delimiters' not in kwargs:
            # relevant info not changed, reuse parent info""",
  """           and 'latex_inline_math_delimiters' not in kwargs:
            # relevant info not changed, reuse parent info""", 'P2')
V('C17-inherit-wrong-attr', 'C17', PS,
  "            self._latex_group_delimchars_close = parent._latex_group_delimchars_close",
  "            self._latex_group_delimchars_close = parent._math_delims_close", 'P4')
V('C17-inherit-misses-attr', 'C17', PS,
  "            self._math_delims_close = parent._math_delims_close\n", "", 'P4')
V('C17-recompute-reads-parent', 'C17', PS,
  "        self._latex_group_delimchars_by_open = dict(self.latex_group_delimiters)",
  "        self._latex_group_delimchars_by_open = dict(parent.latex_group_delimiters if parent is not None else self.latex_group_delimiters)", 'P1')
V('C17-subcontext-drops-field', 'C17', PS,
  "        attrs = self.get_fields()\n",
  "        attrs = {k: v for k, v in self.get_fields().items() if k != 'forbidden_characters'}\n", 'P3')
V('C17-subcontext-writes-self', 'C17', PS,
  "        attrs.update(kwargs2)\n",
  "        attrs.update(kwargs2)\n        self.in_math_mode = attrs['in_math_mode']\n", 'P3')
V('C17-field-not-in-fields', 'C17', PS,
  "        'comment_start',\n        'forbidden_characters',\n    )",
  "        'comment_start',\n    )", 'P3')
V('C17-order-swapped', 'C17', PS,
  """        self._finalize_state_latex_math_delim_info(parent, kwargs)
        self._finalize_state_inmathmode_info(parent, kwargs)""",
  """        self._finalize_state_inmathmode_info(parent, kwargs)
        self._finalize_state_latex_math_delim_info(parent, kwargs)""", 'P7')
V('C17-changed-subset-filter', 'C17', PS,
  "            if not _safe_eq(v, attrs[k])",
  "            if v is not None and not _safe_eq(v, attrs[k])", 'P3')
V('C17-mutation-elsewhere', 'C17', 'pylatexenc/latexnodes/parsers/_delimited.py',
  """        return parsing_state.sub_context(
            latex_group_delimiters = \\
                parsing_state.latex_group_delimiters + [ delimiters_t ]
        )""",
  """        parsing_state.latex_group_delimiters.append(delimiters_t)
        return parsing_state.sub_context()""", 'P6')
V('C17-benign-comment', 'C17', PS,
  "        attrs.update(kwargs2)\n", "        attrs.update(kwargs2)  # apply changes\n", 'SILENT')


# ----------------------------------------------------------------------- C19
ND = 'pylatexenc/latexnodes/nodes.py'
V('C19-skip-args', 'C19', ND,
  """        visited_results_arguments = self.descend_into_parsed_arguments(node.nodeargd)

        return self.visit_specials_node(""",
  """        visited_results_arguments = None

        return self.visit_specials_node(""", 'V2')
V('C19-wrong-dispatch', 'C19', ND,
  "        return visitor.node_standard_process_math(self)",
  "        return visitor.node_standard_process_group(self)", 'V1')
V('C19-double-descend', 'C19', ND,
  """        visited_results_nodelist = self.descend_into_nodelist(node.nodelist)

        return self.visit_group_node(""",
  """        self.descend_into_nodelist(node.nodelist)
        visited_results_nodelist = self.descend_into_nodelist(node.nodelist)

        return self.visit_group_node(""", 'V2')
V('C19-early-break', 'C19', ND,
  """            else:
                visited_results_nodelist.append( None )
""",
  """            else:
                break
""", 'V3')
V('C19-results-swapped', 'C19', ND,
  """            visited_results_arguments=visited_results_arguments,
            visited_results_body=visited_results_body,""",
  """            visited_results_arguments=visited_results_body,
            visited_results_body=visited_results_arguments,""", 'V2')
V('C19-recomposer-drops-args', 'C19', 'pylatexenc/latexnodes/_latex_recomposer.py',
  """        return self.recompose_specials_call(
            node.specials_chars,
            node.nodeargd,
            node
        )""",
  """        return self.recompose_specials_call(
            node.specials_chars,
            None,
            node
        )""", 'V4')
V('C19-benign-comprehension', 'C19', ND,
  """        visited_results_nodelist = []
        for cnode in nodelist:
            if cnode is not None:
                visited_results_nodelist.append(
                    cnode.accept_node_visitor(self)
                )
            else:
                visited_results_nodelist.append( None )

        return visited_results_nodelist""",
  """        return [
            cnode.accept_node_visitor(self) if cnode is not None else None
            for cnode in nodelist
        ]""", 'SILENT')


# ----------------------------------------------------------------------- C09
VB = 'pylatexenc/latexnodes/parsers/_verbatim.py'
SA = 'pylatexenc/latexnodes/parsers/_stdarg.py'
V('C09-revert-D7', 'C09', VB,
  """            verbatim_info.depth_counter -= 1
            if verbatim_info.depth_counter <= 0:""",
  """            self.depth_counter = getattr(self, 'depth_counter', 1) - 1
            if self.depth_counter <= 0:""", 'R09a',
  'D7: nesting depth kept on the cached parser object')
V('C09-parser-remembers-pos', 'C09', 'pylatexenc/latexnodes/parsers/_expression.py',
  "        expr_parsing_state = parsing_state.sub_context(enable_environments=False)\n",
  "        expr_parsing_state = parsing_state.sub_context(enable_environments=False)\n        self._last_parsing_state = expr_parsing_state\n", 'R09a')
V('C09-class-level-counter', 'C09', 'pylatexenc/macrospec/_argumentsparser.py',
  "        argnlist = []\n",
  "        argnlist = []\n        LatexArgumentsParser.num_parsed = getattr(LatexArgumentsParser, 'num_parsed', 0) + 1\n", 'R09a')
V('C09-stdarg-key-forgets-kwargs', 'C09', SA,
  """        k = tuple(list(sorted(d.items(), key=lambda v: v[0]))) # sort by key
""",
  """        k = arg_spec
""", 'R09b')
V('C09-cache-overwrite', 'C09', SA,
  """    if k not in _std_arg_parser_instances:
        instance = LatexStandardArgumentParser(arg_spec, **kwargs)
        _std_arg_parser_instances[k] = instance
        return instance
""",
  """    instance = LatexStandardArgumentParser(arg_spec, **kwargs)
    _std_arg_parser_instances[k] = instance
    return instance
""", 'R09b')
V('C09-default-mutated', 'C09', 'pylatexenc/macrospec/_latexcontextdb.py',
  "        category_dicts = {\n            'macros': dict( (m.macroname, m) for m in macros ),",
  "        macros.extend([])\n        category_dicts = {\n            'macros': dict( (m.macroname, m) for m in macros ),", 'R09c')
V('C09-spec-written-in-parse', 'C09', 'pylatexenc/macrospec/_macrocallparser.py',
  "    def parse(self, latex_walker, token_reader, parsing_state, **kwargs):\n",
  "    def parse(self, latex_walker, token_reader, parsing_state, **kwargs):\n        self.spec.last_token = self.token_call\n", 'R09a2')
V('C09-db-mutated-by-walker', 'C09', 'pylatexenc/latexwalker/_walker.py',
  "                latex_context.freeze() # prevent future changes to the latex context db\n",
  "                latex_context.set_unknown_macro_spec(None)\n                latex_context.freeze() # prevent future changes to the latex context db\n", 'R09d')
V('C09-benign-local', 'C09', SA,
  "        arg_parser = self._arg_parser\n", "        arg_parser = self._arg_parser  # cached\n", 'SILENT')


# ----------------------------------------------------------------------- C20
UT = 'pylatexenc/_util.py'
WK = 'pylatexenc/latexwalker/_walker.py'
V('C20-col-from-next-line', 'C20', UT,
  "        col_no = pos - self._pos_new_lines[line_no]",
  "        col_no = pos - self._pos_new_lines[line_no - 1]", 'R20c')
V('C20-offsets-swapped', 'C20', UT,
  """            col_no += self.first_line_column_offset
        else:
            col_no += self.column_offset""",
  """            col_no += self.column_offset
        else:
            col_no += self.first_line_column_offset""", 'R20c')
V('C20-walker-forwards-wrong-offset', 'C20', WK,
  "                column_offset=self.column_offset,\n",
  "                column_offset=self.first_line_column_offset,\n", 'R20b')
V('C20-error-annotated-from-token', 'C20', WK,
  "                    e.lineno, e.colno = self.latex_walker.pos_to_lineno_colno(epos)",
  "                    e.lineno, e.colno = self.latex_walker.pos_to_lineno_colno(tok.pos if self.open_context and self.open_context[1] is not None else epos)", 'R20a')
V('C20-tuple-swapped', 'C20', UT,
  "        return (line_no, col_no)", "        return (col_no, line_no)", 'R20c')
V('C20-benign', 'C20', UT,
  "        # find line number in list\n", "        # find the line number in the list\n", 'SILENT')


# ----------------------------------------------------------------------- C12
L2TD = 'pylatexenc/latex2text/_defaultspecs.py'
V('C12-revert-D8', 'C12', L2TD,
  "        EnvironmentTextSpec('flalign', simplify_repl=fmt_equation_environment),\n", "", 'R12b2',
  'D8: walker math environment without latex2text routing')
V('C12-comment-leak', 'C12', L2T,
  """            if self.strict_latex_spaces['after-comment']:
                return ""
            else:""",
  """            if self.strict_latex_spaces['after-comment']:
                return ""
            elif node.comment.startswith('!'):
                return node.comment
            else:""", 'R12a')
V('C12-comment-dropped-when-kept', 'C12', L2T,
  "                return '%' + node.comment + nl\n",
  "                return nl\n", 'R12a')
V('C12-remove-returns-space', 'C12', L2T,
  """        elif self.math_mode == 'remove':
            return ''""",
  """        elif self.math_mode == 'remove':
            return self.nodelist_to_text([])  or node.latex_verbatim()[:0] or ' '""", 'R12b')
V('C12-delims-dropped-inline', 'C12', L2T,
  "                return delims[0] + content + delims[1]\n",
  "                return content\n", 'R12b')
V('C12-discard-after-render', 'C12', L2T,
  """        if envdef.discard:
            return ""

        return self.nodelist_to_text(node.nodelist)""",
  """        return self.nodelist_to_text(node.nodelist)""", 'R12c')
V('C12-benign', 'C12', L2T,
  "        # get environment behavior definition.\n", "        # get the environment behavior definition.\n", 'SILENT')


# ----------------------------------------------------------------------- C18
V('C18-revert-D14', 'C18', ND,
  """                elif repeated_key_aggregate_action == 'first':
                    value_nl = result_keyvals[key_s]
""",
  """                elif repeated_key_aggregate_action == 'first':
                    value_nl = result_keyvals[key_s].nodelist
""", 'R18c', 'D14: first policy stores a plain list')
V('C18-chunk-pos-shift', 'C18', ND,
  """                                pending_nodes.append(
                                    chars_to_node(p, n, prev_sep_end, len(n.chars))
                                )""",
  """                                pending_nodes.append(
                                    chars_to_node(p, n, prev_sep_end - 1, len(n.chars))
                                )""", 'R18a')
V('C18-part-end-at-sep-end', 'C18', ND,
  "                                flush_nodes(thenodes, pos_end=n.pos+next_sep_idx)",
  "                                flush_nodes(thenodes, pos_end=n.pos+next_sep_end)", 'R18a')
V('C18-eq-split-unbounded', 'C18', ND,
  "            eq_sep_parts = part.split_at_chars(eq_sep_chars, max_split=1)",
  "            eq_sep_parts = part.split_at_chars(eq_sep_chars, max_split=2)", 'R18f')
V('C18-append-to-tree', 'C18', ND,
  "            pending_nodes.append( n )\n",
  "            pending_nodes.append( n )\n            if keep_empty and n.isNodeType(LatexGroupNode): n.nodelist.nodelist.append(None)\n", 'R18d')
V('C18-benign', 'C18', ND,
  "        # untested code !\n", "        # (code is covered by tests now)\n", 'SILENT')


# ----------------------------------------------------------------------- C04 / C13
UE = 'pylatexenc/latexencode/_unicode_to_latex_encoder.py'
PE = 'pylatexenc/latexencode/_partial_latex_encoder.py'
V('C04-revert-D16', 'C04', PE,
  """            try:
                tok = lw.make_token_reader(pos=pos).peek_token(parsing_state=ps)
            except LatexWalkerTokenParseError:
                # not a well-formed LaTeX token (e.g., lone escape character at
                # the end of the string) -- let the other rules encode it
                return None
""",
  """            tok = lw.make_token_reader(pos=pos).peek_token(parsing_state=ps)
""", 'R04e', 'D16: token parse error escapes from the partial encoder')
V('C04-rules-sorted', 'C04', UE,
  "        self._compiled_rules = []\n",
  "        expanded_conversion_rules = sorted(expanded_conversion_rules, key=lambda r: r.rule_type)\n        self._compiled_rules = []\n", 'R04a')
V('C04-regex-consumes-one', 'C04', UE,
  "                self._apply_replacement(p, replstr, m.end() - m.start(), rule)",
  "                self._apply_replacement(p, replstr, 1, rule)", 'R04b')
V('C04-rule-protection-ignored', 'C04', UE,
  "        if ruleobj.replacement_latex_protection is not None:",
  "        if ruleobj.replacement_latex_protection is not None and protect_fn is None:", 'R04c')
V('C04-no-nfc', 'C04', UE,
  "        s = unicodedata.normalize('NFC', s)\n", "", 'R04f')
V('C04-skip-no-advance', 'C04', UE,
  "            p.latex += s[p.pos]\n            p.pos += 1\n            return True",
  "            p.latex += s[p.pos]\n            return True", 'R04b')
V('C04-benign', 'C04', UE,
  "        # check for possible replacement latex protection, like braces.\n",
  "        # check for a possible replacement latex protection, like braces.\n", 'SILENT')
V('C13-table-raw-percent', 'C13', 'pylatexenc/latexencode/_uni2latexmap.py',
  "0x0025: r'\\%',", "0x0025: r'%',", 'R13a')
V('C13-table-unbalanced', 'C13', 'pylatexenc/latexencode/_uni2latexmap.py',
  "0x003C: r'\\ensuremath{<}',", "0x003C: r'\\ensuremath{<',", 'R13b')
V('C13-protection-unbalanced', 'C13', UE,
  "            return repl + '{}'\n", "            return repl + '{'\n", 'R13c')
V('C13-replace-policy-raw', 'C13', UE,
  "        return r'{\\bfseries ?}'\n", "        return r'{\\bfseries ' + ch + '}'\n", 'R13d')
V('C13-skip-ascii-255', 'C13', UE,
  "        if ord(s[p.pos]) < 127:", "        if ord(s[p.pos]) < 256:", 'R13e')
V('C13-benign', 'C13', UE,
  "        # no protection\n", "        # no protection at all\n", 'SILENT')


# ----------------------------------------------------------------------- C16
SC = 'pylatexenc/macrospec/_specclasses.py'
AP = 'pylatexenc/macrospec/_argumentsparser.py'
V('C16-revert-D11', 'C16', SC,
  "                self.arguments_parser = LatexArgumentsParser(self.arguments_spec_list)",
  "                self.arguments_parser = LatexArgumentsParser(arguments_spec_list)", 'R16d',
  'D11: stale local used to build the arguments parser')
V('C16-revert-D12', 'C16', AP,
  "            nodeargd._legacy_pyltxenc2_inner_parsing_state = inner_parsing_state",
  "            nodeargd._legacy_pyltxenc2_inner_parsing_state_delta = inner_parsing_state", 'R16e',
  'D12: legacy attribute written under another name than the one read')
V('C16-wrong-parser-class', 'C16', WK,
  "    parser = parsers.LatexOptionalSquareBracketsParser()",
  "    parser = parsers.LatexDelimitedGroupParser(delimiters=('[',']'))", 'R16a')
V('C16-reader-not-at-pos', 'C16', WK,
  """    nodes, info = self.parse_content(
        parser,
        token_reader=self.make_token_reader(pos=pos),
        parsing_state=parsing_state,
    )

    if info is not None:
        logger.warning("Call to get_latex_braced_group() ignores""",
  """    nodes, info = self.parse_content(
        parser,
        token_reader=self.make_token_reader(),
        parsing_state=parsing_state,
    )

    if info is not None:
        logger.warning("Call to get_latex_braced_group() ignores""", 'R16a')
V('C16-dead-param', 'C16', WK,
  """    if environmentname is not None and envnode.environmentname != environmentname:
        raise LatexWalkerParseError(
            "Expected environment {{{correct_envname}}}, got {{{got_envname}}}".format(
                correct_envname=environmentname,
                got_envname=envnode.environmentname
            )
        )
""", "", 'R16b')
V('C16-len-from-other-node', 'C16', WK,
  "    p, l = envnode.pos, envnode.len\n", "    p, l = envnode.pos, nodes.len\n", 'R16c')
V('C16-benign', 'C16', WK,
  "    # parse a single node and then we'll verify that it was the correct\n    # environment node\n    parser = parsers.LatexSingleNodeParser()",
  "    # parse a single node, then verify that it was the correct\n    # environment node\n    parser = parsers.LatexSingleNodeParser()", 'SILENT')


# ----------------------------------------------------------------------- C11
TRF = 'pylatexenc/latexnodes/_tokenreader.py'
V('C11-revert-D2-zero-width', 'C11', TRF,
  """                    arg=s[pos],
                    pos=pos,
                    pos_end=pos+1,
                    pre_space=pre_space
                ),
                recovery_token_at_pos=pos+1""",
  """                    arg='',
                    pos=pos,
                    pos_end=pos,
                    pre_space=pre_space
                ),
                recovery_token_at_pos=len(s)""", 'R11a', 'D2a: zero-width recovery token')
V('C11-revert-D2-peek-moves', 'C11', TRF,
  """                return exc.recovery_token_placeholder""",
  """                self.move_to_pos_chars(exc.recovery_token_at_pos)
                return exc.recovery_token_placeholder""", 'R11b', 'D2b: peek_token moves the reader')
V('C11-move-to-token-no-prespace', 'C11', TRF,
  "            new_pos = tok.pos - len(tok.pre_space)\n", "            new_pos = tok.pos - 1\n", 'R11d')
V('C11-postspace-unpaired', 'C11', TRF,
  """                post_space_pos_end = post_space_pos + newline_rel_pos
                post_space = post_space[:newline_rel_pos]

            posi = post_space_pos_end""",
  """                post_space = post_space[:newline_rel_pos]

            posi = post_space_pos_end""", 'R11e')
V('C11-next-token-skips', 'C11', 'pylatexenc/latexnodes/_tokenreaderbase.py',
  "        tok = self.peek_token(parsing_state=parsing_state)\n        self.move_past_token(tok)\n        return tok",
  "        tok = self.peek_token(parsing_state=parsing_state)\n        self.move_past_token(tok)\n        return self.peek_token(parsing_state=parsing_state)", 'R11c')
V('C11-eos-drops-space', 'C11', TRF,
  "            raise LatexWalkerEndOfStream(final_space=pre_space)",
  "            raise LatexWalkerEndOfStream()", 'R11g')
V('C11-benign', 'C11', TRF,
  "        # inspect the next character --\n", "        # inspect the next char --\n", 'SILENT')


# ----------------------------------------------------------------------- C01
NC = 'pylatexenc/latexnodes/_nodescollector.py'
EX = 'pylatexenc/latexnodes/parsers/_expression.py'
V('C01-flush-span-off-by-one', 'C01', NC,
  "            pos_end=charspos+len(chars),\n", "            pos_end=charspos+len(chars)+1,\n", 'R01a')
V('C01-space-node-wrong-start', 'C01', NC,
  "                                                  pos=tok.pos-len(tok.pre_space),\n                                                  pos_end=tok.pos)",
  "                                                  pos=tok.pos,\n                                                  pos_end=tok.pos)", 'R01a')
V('C01-prespace-dropped-on-stop', 'C01', NC,
  """            if self.include_stop_token_pre_space_chars:
                # quickly push the pre_space whitespace into the pending chars
                # so they get included into the content, as well
                self.push_pending_chars(
                    chars=tok.pre_space,
                    pos=tok.pos - len(tok.pre_space),
                )
                rewind_pre_space=False""",
  """            if self.include_stop_token_pre_space_chars:
                rewind_pre_space=False""", 'R01f')
V('C01-prespace-dropped-before-construct', 'C01', NC,
  """        elif tok.pre_space:
            spacestrnode = latex_walker.make_node(LatexCharsNode,""",
  """        elif tok.pre_space and self._nodelist:
            spacestrnode = latex_walker.make_node(LatexCharsNode,""", 'R01f')
V('C01-comment-from-two-tokens', 'C01', NC,
  "                comment_post_space=tok.post_space,\n                pos=tok.pos,\n                pos_end=tok.pos_end\n        )",
  "                comment_post_space=tok.post_space,\n                pos=tok.pos,\n                pos_end=tok.pos_end - len(tok.post_space)\n        )", 'R01c')
V('C01-call-node-end-before-args', 'C01', 'pylatexenc/macrospec/_macrocallparser.py',
  "        pos_start = self.token_call.pos #token_reader.cur_pos()\n",
  "        pos_start = self.token_call.pos #token_reader.cur_pos()\n        pos_end = token_reader.cur_pos()\n", 'SILENT')
# (the early assignment above is overwritten by the one after the arguments and the body: behaviour is unchanged;
#  the fragment-matching version of R01d used to flag it)
V('C01-call-node-end-at-start-without-body', 'C01', 'pylatexenc/macrospec/_macrocallparser.py',
  "        pos_end = token_reader.cur_pos()\n\n        node_kwargs = dict(self.node_extra_kwargs)\n",
  "        pos_end = token_reader.cur_pos() if self.parse_body else pos_start\n\n        node_kwargs = dict(self.node_extra_kwargs)\n", 'R01d')
V('C01-group-end-at-token', 'C01', 'pylatexenc/latexnodes/parsers/_delimited.py',
  "        token_reader.move_past_token(token)\n        logger.debug(\n            \"LatexDelimitedExpressionParser moved",
  "        token_reader.move_to_token(token)\n        logger.debug(\n            \"LatexDelimitedExpressionParser moved", 'R01d')
V('C01-nodelist-end-from-first', 'C01', ND,
  "        for n in reversed(nodelist):\n            if n is not None:\n                pos_end = n.pos_end",
  "        for n in nodelist:\n            if n is not None:\n                pos_end = n.pos_end", 'R01i')
V('C01-benign', 'C01', NC,
  "        # a node list that we are building\n", "        # the node list that we are building\n", 'SILENT')


# ----------------------------------------------------------------------- C02 / C10
DL = 'pylatexenc/latexnodes/parsers/_delimited.py'
SA2 = 'pylatexenc/latexnodes/parsers/_stdarg.py'
V('C02-d-arg-mandatory', 'C02', SA2,
  """            return LatexDelimitedGroupParser(
                delimiters=(open_char, close_char,),
                optional=True,""",
  """            return LatexDelimitedGroupParser(
                delimiters=(open_char, close_char,),
                optional=False,""", 'R02b')
V('C02-slot-skipped', 'C02', 'pylatexenc/macrospec/_argumentsparser.py',
  "            argnlist.append( argnodes )\n",
  "            if argnodes is not None:\n                argnlist.append( argnodes )\n", 'R02c')
V('C02-env-end-any-name', 'C02', 'pylatexenc/macrospec/_environmentbodyparser.py',
  """        if token.tok == 'end_environment' \\
           and token.arg == self.delimited_expression_parser.environmentname:""",
  """        if token.tok == 'end_environment':""", 'R02d')
V('C02-token-kind-unhandled', 'C02', NC,
  "        elif tok.tok == 'specials':\n\n            self.parse_specials(tok)\n            return\n",
  "", 'R02a')
V('C02-linebreak-optarg-after-space', 'C02', 'pylatexenc/latexwalker/_defaultspecs.py',
  "                LatexArgumentSpec(LatexStandardArgumentParser('[', allow_pre_space=False)),",
  "                LatexArgumentSpec(LatexStandardArgumentParser('[')),", 'R02g')
V('C02-benign', 'C02', DL,
  "        # return the outer, original parsing state.\n", "        # return the outer (original) parsing state.\n", 'SILENT')
V('C10-math-delimiter-not-forwarded', 'C10', 'pylatexenc/latexnodes/parsers/_math.py',
  "                math_mode_delimiter=self.math_mode_delimiter,\n", "", 'R10a')
V('C10-node-gets-math-state', 'C10', 'pylatexenc/latexnodes/parsers/_math.py',
  "            parsing_state=self.parsing_state,\n            delimiters=self.parsed_delimiters,",
  "            parsing_state=self.math_parsing_state,\n            delimiters=self.parsed_delimiters,", 'R10a')
V('C10-leave-keeps-delimiter', 'C10', 'pylatexenc/latexnodes/_walkerbase.py',
  "            math_mode_delimiter=None\n", "            math_mode_delimiter=trigger_token and trigger_token.arg\n", 'R10b')
V('C10-text-macro-no-mode', 'C10', 'pylatexenc/latexwalker/_defaultspecs.py',
  "            MacroSpec('textbf', arguments_spec_list=[ _arg_textmode('{') ]),",
  "            MacroSpec('textbf', '{'),", 'R10c')
V('C10-delims-shortest-first', 'C10', 'pylatexenc/latexnodes/_parsingstate.py',
  "            reverse=True,\n", "", 'R10d')
V('C10-collector-state-rebound', 'C10', 'pylatexenc/latexnodes/parsers/_generalnodes.py',
  "        pos_start = token_reader.cur_pos()\n\n        collector =",
  "        pos_start = token_reader.cur_pos()\n        parsing_state = parsing_state.sub_context(in_math_mode=False)\n\n        collector =", 'R10f')
V('C10-benign', 'C10', 'pylatexenc/latexnodes/parsers/_math.py',
  "        pos_end = token_reader.cur_pos()\n", "        pos_end = token_reader.cur_pos()  # after the closing delimiter\n", 'SILENT')


# ----------------------------------------------------------------------- C05
GN = 'pylatexenc/latexnodes/parsers/_generalnodes.py'
VA = 'pylatexenc/macrospec/_pyltxenc2_argparsers/_verbatimargsparser.py'
V('C05-revert-D3', 'C05', EX,
  """                msg=("Unexpected math mode delimiter ‘{}’, was expecting a LaTeX expression"
                     .format(tok.arg)),""",
  """                "Unexpected math mode delimiter ‘{}’, was expecting a LaTeX expression"
                .format(tok.arg),""", 'G1', 'D3: message bound to recovery_nodes -> TypeError')
V('C05-revert-D4', 'C05', VB,
  "                    pos=verbatim_info.original_pos,\n                    error_type_info={\n                        'what': 'verbatim_expected_opening_delimiter_not_found',",
  "                    pos=pos,\n                    error_type_info={\n                        'what': 'verbatim_expected_opening_delimiter_not_found',", 'G2',
  'D4: undefined name pos')
V('C05-revert-D5', 'C05', VA,
  """            while pos < len(w.s) and w.s[pos].isspace():
                pos += 1
            if pos >= len(w.s):
                raise latexnodes_exctypes.LatexWalkerParseError(
                    s=w.s,
                    pos=pos,
                    msg=r"Missing argument to \\verb command"
                )
""",
  """            while w.s[pos].isspace():
                pos += 1
                if pos >= len(w.s):
                    raise latexnodes_exctypes.LatexWalkerParseError(
                        s=w.s,
                        pos=pos,
                        msg=r"Missing argument to \\verb command"
                    )
""", 'G5', 'D5: index before bounds check')
V('C05-revert-D6', 'C05', GN,
  """            error_pos = collector.pos_start()
            if error_pos is None:
                # nothing was collected, report the position where we started
                error_pos = pos_start
            exc = LatexWalkerNodesParseError(
                msg=message,
                pos=error_pos,""",
  """            exc = LatexWalkerNodesParseError(
                msg=message,
                pos=collector.pos_start(),""", 'G8', 'D6: error position may be None')
V('C05-revert-D18', 'C05', NC,
  """            try:
                self.finalize()
            except LatexNodesCollector.ReachedStoppingCondition as e:
                # flushing the last pending chars made the node list meet its
                # stopping condition.  We're done anyway; don't let the
                # internal control-flow exception escape.
                self._stop_condition_stop_data = e.stop_data
""",
  """            self.finalize()
""", 'R05a', 'D18: internal stop exception escapes from the finally clause')
V('C05-revert-D20', 'C05', EX,
  "        if self.single_token_requiring_arg_is_error and spec is not None:",
  "        if self.single_token_requiring_arg_is_error:", 'G4', 'D20: spec lookup result may be None')
V('C05-revert-D21', 'C05', SA2,
  "            elif self.contents_parser_info.delimited_expression_parser.keep_empty_parts:",
  "            elif self.keep_empty_parts:", 'G3', 'D21: attribute of another class read through self')
V('C05-revert-D22', 'C05', VB,
  """        if verbatim_string.endswith(end_environment_code):
            verbatim_string = verbatim_string[:-len(end_environment_code)]
""",
  """        assert( verbatim_string.endswith(end_environment_code) )

        verbatim_string = verbatim_string[:-len(end_environment_code)]
""", 'R05a', 'D22: input-dependent assert')
V('C05-new-valueerror', 'C05', TRF,
  "        c = s[pos+1] # next char is necessarily part of macro\n",
  "        c = s[pos+1] # next char is necessarily part of macro\n        if c == '\\0':\n            raise ValueError('NUL character in macro name')\n", 'R05a')
V('C05-eos-handler-removed', 'C05', NC,
  """        except LatexNodesCollector.ReachedEndOfStream as e:
            # all good!  We reached the end of the input.  Note that any final
            # space has already been included into a chars node in the nodelist.
            self._reached_end_of_stream = True
            logger.debug("nodes collector process_tokens() reached end of stream")
            return
""", "", 'R05a')
V('C05-stray-brace-accepted', 'C05', NC,
  "        if tok.tok == 'brace_close':\n            raise LatexWalkerNodesParseError(",
  "        if tok.tok == 'brace_close' and self.stop_token_condition is None:\n            raise LatexWalkerNodesParseError(", 'R05e')
V('C05-benign', 'C05', NC,
  "        # check for tokens that are illegal in this context\n", "        # check for tokens which are illegal in this context\n", 'SILENT')


# ----------------------------------------------------------------------- C06
V('C06-revert-D1-store-none', 'C06', WK,
  """                if self.latex_walker.check_tolerant_parsing_ignore_error(e) is None:
                    # we're trying to recover from this error (tolerant parsing mode)
                    self.recovery_from_exception = e""",
  """                e = self.latex_walker.check_tolerant_parsing_ignore_error(e)
                if e is None:
                    # we're trying to recover from this error (tolerant parsing mode)
                    self.recovery_from_exception = e""", 'R06a', 'D1a: None stored as recovery exception')
V('C06-revert-D1-missing-method', 'C06', WK,
  "                pc.perform_recovery_nodes_and_parsing_state_delta(the_token_reader)",
  "                pc.perform_recovery_nodes_info(the_token_reader)", 'R06a', 'D1b: non-existent method')
V('C06-revert-D2', 'C06', TRF,
  """                    arg=s[pos],
                    pos=pos,
                    pos_end=pos+1,
                    pre_space=pre_space
                ),
                recovery_token_at_pos=pos+1""",
  """                    arg='',
                    pos=pos,
                    pos_end=pos,
                    pre_space=pre_space
                ),
                recovery_token_at_pos=len(s)""", 'R06b', 'D2: recovery makes no progress')
V('C06-revert-D17', 'C06', EX,
  "            tok = e.recovery_token_placeholder\n            token_reader.move_to_pos_chars(e.recovery_token_at_pos)",
  "            tok = exc.recovery_token_placeholder\n            token_reader.move_to_pos_chars(exc.recovery_token_at_pos)", 'G4',
  'D17: dereference of the None result of the tolerance check')
V('C06-mode-read-in-normal-flow', 'C06', NC,
  "        if tok.tok == 'char':\n            self.push_pending_chars(",
  "        if tok.tok == 'char' or (latex_walker.tolerant_parsing and tok.tok == 'specials' and False):\n            self.push_pending_chars(", 'R06e')
V('C06-unmet-stop-without-nodes', 'C06', GN,
  "                recovery_nodes=collected_nodelist,\n", "                recovery_nodes=None,\n", 'R06d')
V('C06-parse-error-not-suppressed', 'C06', WK,
  "            if exc_value is not None and isinstance(exc_value, LatexWalkerParseError):",
  "            if exc_value is not None and isinstance(exc_value, LatexWalkerNodesParseError):", 'R06a')
V('C06-benign', 'C06', WK,
  "                    return True # error was handled\n", "                    return True # the error was handled\n", 'SILENT')

# ----------------------------------------------------------------------- C07
V('C07-revert-D15-href', 'C07', L2TD,
  """         '{} <{}>'.format(l2tobj.node_arg_to_text(n, 1),
                          l2tobj.node_arg_to_text(n, 0))),""",
  """         '{} <{}>'.format(l2tobj.nodelist_to_text([n.nodeargd.argnlist[1]]),
                          l2tobj.nodelist_to_text([n.nodeargd.argnlist[0]]))),""", 'G7', 'D15: constant index into argnlist')
V('C07-revert-D15-matrix', 'C07', L2T,
  """    all_char_widths = [ len(x)  for row in state.matrix_rows  for x in row ]
    max_char_width = max(all_char_widths) if all_char_widths else 0 # empty matrix""",
  """    max_char_width = max( ( len(x)  for row in state.matrix_rows  for x in row ) )""", 'G6', 'D15: max() of nothing')
V('C07-revert-D15-input', 'C07', L2T,
  """            if not n.nodeargs:
                # no file name at all (e.g. \\input given as a single-token
                # argument of another macro)
                return ''
""", "", 'G7', 'D15: n.nodeargs[0] without arguments')
V('C07-revert-D19', 'C07', L2T,
  "                (node.nodeargs is None or len(node.nodeargs) == 0))",
  "                len(node.nodeargs) == 0)", '*', 'D19: len() of a None legacy view')
V('C07-math-mode-arm-missing', 'C07', L2T,
  "        if self.math_mode not in ('text', 'with-delimiters', 'verbatim', 'remove'):",
  "        if self.math_mode not in ('text', 'with-delimiters', 'verbatim', 'remove', 'keep'):", 'R07c')
V('C07-policy-key-missing', 'C07', L2T,
  """    'macros': {
        'between-macro-and-chars': True,
        'between-latex-constructs': True,
        'after-comment': False,""",
  """    'macros': {
        'between-macro-and-chars': True,
        'between-latex-constructs': True,""", 'R07c')
V('C07-callable-extra-param', 'C07', L2TD,
  "def _format_uebung(n, l2tobj):", "def _format_uebung(n, l2tobj, numbering):", 'R07f')
V('C07-benign', 'C07', L2T,
  "        # get macro behavior definition.\n", "        # get the macro behavior definition.\n", 'SILENT')


# ----------------------------------------------------------------------- C03 / C08
V('C03-preset-after-comment', 'C03', L2T,
  """    'macros': {
        'between-macro-and-chars': True,
        'between-latex-constructs': True,
        'after-comment': False,""",
  """    'macros': {
        'between-macro-and-chars': True,
        'between-latex-constructs': True,
        'after-comment': True,""", 'R03a')
V('C03-false-means-based-on-source', 'C03', L2T,
  "        return _strict_latex_spaces_predef['macros']\n    elif strict_latex_spaces is True:",
  "        return _strict_latex_spaces_predef['based-on-source']\n    elif strict_latex_spaces is True:", 'R03a')
V('C03-math-node-dispatch-missing', 'C03', L2T,
  "        if node.isNodeType(latexwalker.LatexMathNode):\n            return self.math_node_to_text(node)\n", "", 'R03c')
V('C03-equation-context-leaks', 'C03', UT,
  "            setattr(self.obj, self.propname, self.initval)", "            pass", 'R03d')
V('C03-emph-discarded', 'C03', L2TD,
  "        MacroTextSpec('emph', discard=False),", "        MacroTextSpec('emph'),", 'R03e')
V('C03-postspace-always', 'C03', L2T,
  "                if not self.strict_latex_spaces['between-macro-and-chars']:",
  "                if self.strict_latex_spaces['between-macro-and-chars'] is not None:", 'R03h')
V('C03-whitespace-node-polarity', 'C03', L2T,
  "        if not self.strict_latex_spaces['between-latex-constructs'] \\\n           and len(content.strip()) == 0:",
  "        if self.strict_latex_spaces['between-latex-constructs'] \\\n           and len(content.strip()) == 0:", 'R03i')
V('C03-endash', 'C03', L2TD,
  '            SpecialsTextSpec("--", u"\\N{EN DASH}"),', '            SpecialsTextSpec("--", u"\\N{EM DASH}"),', 'R03j')
V('C03-benign', 'C03', L2T,
  "        # ### It doesn't look like we use prev_node_hint at all.  Eliminate at\n", "        # ### prev_node_hint is unused.  Eliminate at\n", 'SILENT')
V('C08-l2t-symbol-changed', 'C08', L2TD,
  "        ('oe', u'\\u0153'),", "        ('oe', u'oe'),", 'R08a')
V('C08-benign-shadowed-duplicate', 'C08', L2TD,
  "    MacroTextSpec('textcent', u'\\N{CENT SIGN}'), # ‘¢’", "    MacroTextSpec('textcent', u'c'), # ‘¢’", 'SILENT',
  'the first of two duplicate entries of one category is shadowed by the second: behaviour unchanged')
V('C08-encoder-entry-changed', 'C08', 'pylatexenc/latexencode/_uni2latexmap.py',
  "0x00A1: r'\\textexclamdown',", "0x00A1: r'\\textquestiondown',", 'R08a')
V('C08-accent-two-args', 'C08', 'pylatexenc/latexwalker/_defaultspecs.py',
  '            std_macro("hat", False, 1),', '            std_macro("hat", False, 2),', 'R08c')
V('C08-accent-combining-swapped', 'C08', L2TD,
  '    ("`", u"\\N{COMBINING GRAVE ACCENT}"),', '    ("`", u"\\N{COMBINING ACUTE ACCENT}"),', 'R08a')
V('C08-mathbb-offset', 'C08', L2T,
  "    'doublestruck': (0x1D538, 0x1D552),", "    'doublestruck': (0x1D538, 0x1D553),", 'R08a')
V('C08-benign', 'C08', UE,
  "            # has dangling named macro, apply protection.\n            return '{' + repl + '}'",
  "            # has a dangling named macro, apply protection.\n            return '{' + repl + '}'", 'SILENT')


# ----------------------------------------------------------------------- second round additions
UT = 'pylatexenc/_util.py'
V('C20-linestart-skips-empty-lines', 'C20', UT,
  "                k = x.find('\\n', k)\n", "                k = x.find('\\n', k+1)\n", 'R20d',
  'the search for the next newline starts one past the previous line start: empty lines are skipped')
V('C20-linestart-no-plus-one', 'C20', UT,
  "                k += 1\n                # s[k] is the character after the newline",
  "                # s[k] is the character after the newline", 'R20d')
V('C20-linestart-other-string', 'C20', UT,
  "self._pos_new_lines = list(find_all_new_lines(s))",
  "self._pos_new_lines = list(find_all_new_lines(s.strip()))", 'R20d')
V('C11-scanner-double-step', 'C11', TRF,
  "            space += c\n            p2 += 1\n", "            space += c\n            p2 += 2\n", 'R11e')
V('C11-scanner-appends-blank', 'C11', TRF,
  "            space += c\n            p2 += 1\n", "            space += ' '\n            p2 += 1\n", 'R11e')
V('C11-move-past-wrong-postspace', 'C11', TRF,
  "                new_pos -= len(post_space)\n", "                new_pos -= 1\n", 'R11d')
V('C01-push-overwrites-start', 'C01', NC,
  "        if self._pending_chars_pos is None:\n            self._pending_chars_pos = pos\n",
  "        self._pending_chars_pos = pos\n", 'R01k')
V('C01-flush-no-reset', 'C01', NC,
  "        self._pending_chars = ''\n        self._pending_chars_pos = None\n",
  "        self._pending_chars_pos = None\n", 'R01k')
V('C01-push-prepends', 'C01', NC,
  "        self._pending_chars += chars\n", "        self._pending_chars = chars + self._pending_chars\n", 'R01k')
V('C10-body-state-from-self', 'C10', 'pylatexenc/macrospec/_macrocallparser.py',
  "get_updated_parsing_state_from_delta(\n            parsing_state,\n            self.make_body_parsing_state_delta(",
  "get_updated_parsing_state_from_delta(\n            self.parsing_state_for_body,\n            self.make_body_parsing_state_delta(",
  'R10h')
V('C06-retry-rewinds', 'C06', EX,
  "            # recover from error ->\n            raise _TryAgainWithSkippedCommentOrWhitespaceNodes([], tok.pos)\n\n\n        if tok.tok == 'comment':",
  "            # recover from error ->\n            token_reader.move_to_token(tok)\n            raise _TryAgainWithSkippedCommentOrWhitespaceNodes([], tok.pos)\n\n\n        if tok.tok == 'comment':",
  'R06f')

OPT = 'pylatexenc/latexnodes/parsers/_optionals.py'
V('C02-revert-D25-eos-loses-star', 'C02', OPT,
  """        try:
            orig_pos_tok = token_reader.peek_token(parsing_state=parsing_state)
        except LatexWalkerEndOfStream:
            # end of input: there is no (further) marker here.  This must not
            # abort the whole argument, a marker that was already read (e.g. the
            # star of ``\\\\cmd*`` at the very end of the input) would be lost.
            return None, None, None, token_reader.cur_pos()
""",
  """        orig_pos_tok = token_reader.peek_token(parsing_state=parsing_state)
""", 'R02k', 'D25: end of input after the star aborts the whole argument')

V('C16-revert-D26-legacy-body-delta', 'C16', 'pylatexenc/macrospec/_specclasses.py',
  """        if inner_parsing_state is None:
            # the legacy args parser did not request a specific state for the
            # body: the spec's own body delta applies (e.g., is_math_mode=True),
            # as it does when the arguments are given as an argument string
            return spec.body_parsing_state_delta
        return ParsingStateDeltaReplaceParsingState(set_parsing_state=inner_parsing_state)""",
  """        return ParsingStateDeltaReplaceParsingState(set_parsing_state=inner_parsing_state)""",
  'R16j', 'D26: legacy args parser object hides is_math_mode')

V('C16-revert-D27-legacy-optarg-space', 'C16', 'pylatexenc/macrospec/_pyltxenc2_argparsers/_base.py',
  """                    latexnodes_parsers.LatexOptionalSquareBracketsParser(
                        allow_pre_space=True
                    ),""",
  """                    latexnodes_parsers.LatexOptionalSquareBracketsParser(),""",
  'R16k', 'D27: legacy optional argument rejects leading whitespace')

V('C14-revert-D28-filter-autonamed', 'C14', CDB,
  """                cat if not cat.startswith(_autogen_category_prefix) else None,
""", """                cat,
""", 'M9', 'D28: filtered_context() on an extended database raises ValueError (reserved category name)')

V('C07-revert-D29-legacy-dicts', 'C07', 'pylatexenc/latex2text/__init__.py',
  """                macro_dict = flags.pop('macro_dict', default_macro_dict)
                env_dict = flags.pop('env_dict', default_env_dict)
""", """                macro_dict = flags.pop('macro_dict', [])
                env_dict = flags.pop('env_dict', [])
""", 'G14', 'D29: LatexNodes2Text(macro_dict=...) alone raises AttributeError (list default)')

V('C16-revert-D30-spec-parse-args', 'C16', 'pylatexenc/macrospec/_specclasses.py',
  """    return parsed, pos, parsed_len
""", """    return parsed, parsed.pos, parsed.len
""", 'R16p', 'D30: spec.parse_args() reads .pos/.len of ParsedArguments')

V('C16-revert-D31-legacy-star-eos', 'C16', 'pylatexenc/macrospec/_pyltxenc2_argparsers/_base.py',
  """                try:
                    tok = w.get_token(p)
                except LatexWalkerEndOfStream:
                    # nothing follows: the star is simply absent
                    argnlist.append(None)
                    continue
                if tok.tok == 'char' and tok.arg.startswith('*'):
""", """                tok = w.get_token(p)
                if tok.tok == 'char' and tok.arg.startswith('*'):
""", 'R16q', 'D31: legacy star slot at end of input loses all arguments')


V('C13-revert-D32-xml-bare-accent', 'C13', 'pylatexenc/latexencode/_uni2latexmap_xml.py',
  """0x0301: "\\\\'{}",
""", """0x0301: "\\\\'",
""", 'R13o', 'D32: unicode-xml maps a combining accent to a bare accent macro')
