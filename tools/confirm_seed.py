#!/venv/bin/python
"""Confirm a seeded change produced by a sub-agent and file it under /verif/seeded/<id>/.

usage: confirm_seed.py <worktree> <seed dir name e.g. C14_1> [--id NAME]

Confirms, in the scratch worktree (never in /repo): demo passes on the unmodified
code, fails with the patch applied, and the existing suite still passes with the patch.
"""
import json, os, shutil, subprocess, sys

def run(cmd, cwd, env=None, timeout=900):
    e = dict(os.environ)
    e.update(env or {})
    try:
        p = subprocess.run(cmd, cwd=cwd, env=e, stdout=subprocess.PIPE, stderr=subprocess.STDOUT,
                           timeout=timeout, shell=isinstance(cmd, str))
        return p.returncode, p.stdout.decode('utf-8', 'replace')
    except subprocess.TimeoutExpired:
        return 124, 'TIMEOUT'

def main():
    wt, name = sys.argv[1], sys.argv[2]
    sid = name
    if '--id' in sys.argv:
        sid = sys.argv[sys.argv.index('--id') + 1]
    sd = os.path.join(wt, '_seed', name)
    patch = os.path.join(sd, 'patch.diff')
    demo = os.path.join(sd, 'demo.py')
    env = {'PYTHONPATH': wt}
    run(['git', 'checkout', '--', 'pylatexenc'], wt)
    rc0, out0 = run(['timeout', '120', '/venv/bin/python', demo], wt, env)
    rca, outa = run(['git', 'apply', patch], wt)
    if rca != 0:
        print('PATCH DOES NOT APPLY', outa); return 1
    rc1, out1 = run(['timeout', '120', '/venv/bin/python', demo], wt, env)
    rct, outt = run('/venv/bin/python -m pytest -q -p no:cacheprovider 2>&1 | tail -3', wt, env)
    run(['git', 'checkout', '--', 'pylatexenc'], wt)
    suite_ok = '286 passed' in outt and 'failed' not in outt
    ok = (rc0 == 0 and rc1 != 0 and suite_ok)
    print('%s: demo clean rc=%s, demo patched rc=%s, suite: %s -> %s'
          % (name, rc0, rc1, outt.strip().splitlines()[-1] if outt.strip() else '?',
             'CONFIRMED' if ok else 'REJECTED'))
    if not ok:
        print(out0[-500:]); print(out1[-500:])
        return 1
    dst = os.path.join('/verif/seeded', sid)
    os.makedirs(dst, exist_ok=True)
    shutil.copy(patch, os.path.join(dst, 'patch.diff'))
    shutil.copy(demo, os.path.join(dst, 'demo.py'))
    notes = os.path.join(sd, 'notes.md')
    if os.path.exists(notes):
        shutil.copy(notes, os.path.join(dst, 'notes.md'))
    meta = {
        'id': sid, 'property': name.split('_')[0],
        'source': 'independent sub-agent given only the property text and a scratch worktree',
        'needs_to_manifest': open(notes).read()[:1500] if os.path.exists(notes) else '',
        'confirmed': {
            'demo_on_clean_tree_rc': rc0, 'demo_with_patch_rc': rc1,
            'suite_with_patch': outt.strip().splitlines()[-1] if outt.strip() else '',
            'commands': ['PYTHONPATH=<wt> /venv/bin/python demo.py (clean, then with git apply patch.diff)',
                         'PYTHONPATH=<wt> /venv/bin/python -m pytest -q -p no:cacheprovider'],
            'demo_output_with_patch_tail': out1[-400:],
        },
        'detected_by': None,
    }
    with open(os.path.join(dst, 'meta.json'), 'w') as f:
        json.dump(meta, f, indent=1)
    return 0

if __name__ == '__main__':
    sys.exit(main())
