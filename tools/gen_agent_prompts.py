#!/venv/bin/python
"""Generate sub-agent assignments (seeding of property-breaking changes / behaviour-preserving
refactorings).  The assignment text contains only the property text from properties.jsonl, the
files the property names, a list of ideas earlier rounds already used (from seeded/*/meta.json,
so that a new round explores something else) and how to run the suite -- nothing about the checks.
usage: gen_agent_prompts.py seed <tag> <Cxx> <Cyy> | refactor <tag> <file> [<file> ...] [-- func hints]"""
import json, os, re, sys
V = '/verif'
props = {}
for line in open(os.path.join(V, 'properties.jsonl')):
    o = json.loads(line)
    props[o['id']] = o

def used_ideas(pid):
    out = []
    sd = os.path.join(V, 'seeded')
    for name in sorted(os.listdir(sd)):
        mp = os.path.join(sd, name, 'meta.json')
        if not os.path.exists(mp):
            continue
        m = json.load(open(mp))
        if m['property'] != pid:
            continue
        t = m.get('needs_to_manifest', '')
        mm = re.search(r'(?:Change|Bug|change)\s*[:(]\s*(.+?)(?:\n[A-Z][a-z]+[^\n]{0,30}:|\n\n|$)', t, re.S)
        d = (mm.group(1) if mm else t[:300]).replace('\n', ' ')
        out.append(d[:230])
    return out

mode, tag = sys.argv[1], sys.argv[2]
wt = '/tmp/wt_' + tag
if mode == 'seed':
    tmpl = open(os.path.join(V, 'tools/agent_prompts/seed_template_example.md')).read()
    head = tmpl.split('PROPERTY C10')[0].replace('/tmp/wt_T', wt)
    head = head.replace('Your final message should just list',
                        'Earlier rounds already used the ideas listed under each property below: do NOT '
                        'repeat them or close variants; look in other functions, other files, other mechanisms '
                        '(state that is not reset, two sites that stop agreeing, a boundary case, an option '
                        'combination, a default table entry, an error path, a legacy code path). '
                        'Your final message should just list')
    body = ''
    for pid in sys.argv[3:]:
        p = props[pid]
        body += 'PROPERTY %s — %s\nStatement: %s\nQuantified over: %s\nFiles mainly involved: %s\n' % (
            pid, p['title'], p['statement'], p['quantifier']['text'], ', '.join(p['anchors']['files']))
        body += 'Ideas already used for this property (do not repeat):\n'
        for d in used_ideas(pid):
            body += '  - %s\n' % d
        body += '\n'
    open('/tmp/agent_prompt_%s.md' % tag, 'w').write(head + body)
else:
    tmpl = open(os.path.join(V, 'tools/agent_prompts/refactor_template_example.md')).read()
    args = sys.argv[3:]
    hints = []
    if '--' in args:
        i = args.index('--')
        args, hints = args[:i], args[i + 1:]
    pre, rest = tmpl.split('spread over these files:\n', 1)
    after = rest.split('\n\n', 1)[1]
    files = ''.join('  - %s\n' % f for f in args)
    if hints:
        files += 'Touch in particular these functions/methods (one refactoring each, then others of your choice): ' \
                 + ', '.join(hints) + '\n'
    txt = (pre + 'spread over these files:\n' + files + '\n' + after).replace('/tmp/wt_R1', wt).replace('R1_', tag + '_')
    open('/tmp/agent_prompt_%s.md' % tag, 'w').write(txt)
print('/tmp/agent_prompt_%s.md' % tag)
