#!/venv/bin/python
"""Regenerates /verif/MANIFEST.json from the table below (kept in one place so the
manifest is always valid and in step with the rule modules that exist)."""
import json, os, sys
HERE = os.path.dirname(os.path.dirname(os.path.abspath(__file__)))
sys.path.insert(0, HERE)

CHECKS = {
 'C14': dict(level='proof', design='DESIGN.md section 5, C14',
   text=('Premises M1-M7 (mirror of category_list and chain maps at construction and under every '
         'mutator, frozen guard dominating every state write, copy-on-derive with freshness-depth '
         'analysis, kind-coherent lookups, strict longest-match scan) are decided on the source of '
         'LatexContextDb for every method at once; with ChainMap semantics they imply the lookup '
         'order for every history by the induction written in the evidence file.'),
   note=('Trusted: collections.ChainMap semantics, CPython ast. Decides the structural premises, '
         'not run-time histories; user subclasses of LatexContextDb are outside the rule.'),
   technique='AST effect/ownership analysis over class LatexContextDb (mirror invariant, dominating frozen guard, freshness depth, kind coherence)'),
 'C15': dict(level='other', design='DESIGN.md section 5, C15',
   text=('Decides on the source of read_latex_file/read_input_file the structural conditions of strict-input '
         'containment for every requested name at once: component-aware containment test (bare prefix refuted), '
         'the value tested is os.path.realpath(...) of what is opened, no re-binding between test and open, failing '
         'branch returns, strict flag plumbing and default, and no other file-reading call in the package.'),
   note=('Trusted: os.path.realpath/commonpath semantics, no file-system race between check and open. The behaviour '
         'of the os.path functions is not analysed; custom read_input_file overrides are outside the rule.'),
   technique='AST def-use / guard analysis of the containment check (checked value = opened value), syntax-directed guarded-value enumeration of the helper (path facts), cache-key completeness of stored reads, who-may-open rule over the package'),
 'C17': dict(level='proof', design='DESIGN.md section 5, C17',
   text=('Premises P1-P7 decided on class ParsingState: derived tables are functions of fields, the inherit guard of '
         'each _finalize_* tests every field its table transitively depends on (cache-key completeness), all fields '
         'travel through sub_context, both arms assign the same like-named tables, finalisers run in dependency order, '
         'no store/in-place mutation of a state outside set_fields/_finalize_*.  The induction over the sub_context '
         'chain is written in the evidence file.'),
   note='Trusted: CPython ast; == on field values (_safe_eq). User subclasses of ParsingState are outside the rule.',
   technique='AST dependency analysis of derived attributes vs. cache-key guards, field/parameter set agreement, effect analysis over the package'),
 'C19': dict(level='proof', design='DESIGN.md section 5, C19',
   text=('Premises V1-V5 decided on the node classes and LatexNodesVisitor: single double-dispatch per class, one '
         'unconditional descend per child-bearing field in evaluation order arguments->body, one visit call receiving '
         'exactly those results, descend_into_nodelist yields one result per element with None placeholders; structural '
         'induction on tree height gives the property for all trees.'),
   note='Trusted: CPython ast and left-to-right evaluation order. User visitor subclasses are outside the rule.',
   technique='AST structural rules over the visitor double dispatch (exactly-once descend, evaluation order, result forwarding)'),
 'C09': dict(level='other', design='DESIGN.md section 5, C09',
   text=('Effect/ownership analysis over every class whose instances outlive a parse (parsers, specs, argument '
         'specs, parsing-state deltas, legacy args parsers): no write through self, a local alias, the class object '
         'or a shared-typed receiver outside the constructor (construction-time memos and classes verified to be '
         'instantiated per parse excepted); module-level caches follow the memo idiom with a key that covers '
         'everything the cached value is built from (attribute-level, through self.method calls); mutable defaults '
         'are never mutated; database mutators only on databases created locally; extended_with/filtered_context '
         'never write to their source.'),
   note=('Decides the necessary condition "no write to a shared object during a parse", not equality of parse '
         'results. Receiver typing of non-self stores uses the repository naming convention; user callbacks and '
         'custom parser classes are outside the rule.'),
   technique='AST effect analysis (self/alias/class-level/shared-receiver stores), memo-idiom, cache-key completeness and injectivity, freshness-depth analysis'),
 'C12': dict(level='other', design='DESIGN.md section 5, C12',
   text=('Decides the gates through which comments, formula content and discarded constructs can reach the output: '
         'every return of comment_node_to_text / math_node_to_text / *_node_to_text is classified by the guard facts '
         'that dominate it (keep_comments, math_mode literal, discard flag); the default walker and latex2text tables '
         'are evaluated (declarative-table evaluator) to check every math environment is routed through the switch and '
         'which entries rely on the default discard flag.'),
   note=('Rendered strings are not computed; user-supplied specs are outside the cross-table rule. One known finding '
         '(split environment) is listed in known_findings.json.'),
   technique='AST guard-fact classification of return sites + evaluation of the declarative default tables (cross-table agreement)'),
 'C20': dict(level='other', design='DESIGN.md section 5, C20',
   text=('Decides the algebraic shape of the position->(line,column) map (column = pos - T[i] with the same raw index i '
         'that yields the line, first-line offset selected on the raw index, offsets forwarded under their own names) and '
         'that errors are annotated from their own position under a guard that keeps position 0; so pos = T[i] + col - offset '
         'holds by construction for all strings and positions.'),
   note='Trusted: bisect_right semantics and that _pos_new_lines is the sorted table of line starts (value-level, not decided).',
   technique='syntax-directed guarded-value enumeration of pos_to_lineno_colno and of the line-start generator (affine normal forms of substituted results per structural path), option forwarding by name, truthiness-of-position rule'),
 'C18': dict(level='other', design='DESIGN.md section 5, C18',
   text=('Per-site structural conditions of the splitting / key-value functions: chunk text and chunk position use the '
         'same slice bounds, parts end at the separator start, only top-level chars nodes are searched, the key-value '
         'result is type-consistent across policy branches, the query functions never mutate an existing node list in '
         'place (also through local aliases), and the max_split bound is maintained on every separator path.'),
   note='The partition identity (joining parts reproduces the source) is value-level and is not decided; user separator callables are outside the rule.',
   technique='AST slice/position agreement, sibling-branch type agreement, alias-aware in-place mutation analysis, path enumeration for the max_split bound'),
 'C04': dict(level='other', design='DESIGN.md section 5, C04',
   text=('Structural conditions of the documented encoder semantics decided on the source: the rule sequence is '
         'appended in input order and compiled one-to-one (never re-bound, merged, sorted or synthesised), the main loop '
         'is first-match and every path of one iteration consumes exactly once (helper summaries for skip-ascii, '
         '_apply_replacement, the three _apply_rule_* kinds and both fallback arms), rule-level protection wins, policy and '
         'protection names resolve to methods, only the fail policy raises and the partial encoder contains token errors, '
         'NFC precedes the loop, regex rules match in place, and the module-level encoder cache key covers every option.'),
   note='Agreement with an executable reference semantics on concrete strings is not decided; user callables/regexes are outside the rule.',
   technique='syntax-directed guarded-value enumeration of the encoder main loop and rule helpers (consumed length / replacement provenance per path), per-helper consumption summaries; cache-key completeness; raise-site audit'),
 'C13': dict(level='other', design='DESIGN.md section 5, C13',
   text=('Both built-in tables are evaluated entry by entry on every run (3745 entries: balanced braces, even unescaped $, no '
         'unescaped %, no \\begin/\\end, ASCII only; the ten active characters neutralised), and the protection methods, '
         'unknown-character policies, fallback arm, non_ascii_only bound and the cached module-level helper are checked '
         'for shape.'),
   note='Necessary conditions only: that every concatenation of replacements and copied input parses in strict mode is not decided.',
   technique='evaluation of the literal encoder tables against inertness predicates + AST shape rules on policies/protection/fallback arm'),
 'C16': dict(level='other', design='DESIGN.md section 5, C16',
   text=('Decides the wiring of the backward-compatible entry points onto the new parser objects: the parser class each '
         'shim builds equals the one its deprecation message names, the reader starts at `pos`, every parameter is live, '
         'stop options agree between the stop predicate and the required-stop flag, the result triple comes from the parsed '
         'node, CallableSpec builds its arguments parser from the value it tested, legacy attribute names written = read, '
         'and the legacy args parser advances only to positions reported by its sub-parses.'),
   note='Equality of trees between legacy and new entry points on all inputs is not decided; only the wiring is.',
   technique='AST wiring/liveness analysis of the legacy shims, guard/use agreement, sibling-branch agreement, name agreement of legacy attributes'),
 'C11': dict(level='other', design='DESIGN.md section 5, C11',
   text=('At every token construction site of the reader the width pos_end - pos is normalised (affine normaliser) and must '
         'be positive; an effect analysis over LatexTokenReader and its base shows the peek family and all impl_* methods '
         'never write the reader (directly or through self calls); next_token = peek + move_past of the same token; move '
         'targets are tok.pos - len(pre_space) / tok.pos_end; the peeked whitespace is forwarded unchanged and wherever '
         'pre/post space is cut at an index the matching position is recomputed with the same index; longest-match specials.'),
   note='The concatenation identity over whole token sequences is a run-time statement and is not decided. Widths of four sites use reviewed lemmas (posi, environment name match, paragraph span, comment span).',
   technique='affine normalisation of token spans, transitive self-write effect analysis, guarded-value enumeration (space/position coherence per structural path, scanner loop invariant, move targets per flag value)'),
 'C01': dict(level='other', design='DESIGN.md section 5, C01',
   text=('Span algebra at every node construction site: for each of the chars-node sites pos_end - pos - len(chars) is '
         'normalised (affine normaliser, reaching definitions, token-span lemma) and must be 0; comment/macro/specials nodes '
         'forward all fields of one token; group, math and call nodes run from their opening token to the reader position '
         'taken after their content, and the stop handler consumes the closing token; a path analysis of process_one_token '
         'shows the leading whitespace of every token is consumed exactly once on every exit; verbatim truncations are '
         'paired with position updates; tolerant recovery nodes agree with the resume point; node-list spans and '
         'latex_verbatim have the documented shape.'),
   note='That the spans produced by different cooperating parsers tile the input (no gap/overlap between siblings) is a run-time relation between sites and is not decided.',
   technique='affine span normalisation at construction sites, def-use field forwarding, path-sensitive must-consume analysis of the token dispatcher, paired-truncation rule, guarded-value enumeration for pending-chars and verbatim put-back'),
 'C02': dict(level='other', design='DESIGN.md section 5, C02',
   text=('Decides the dispatch skeleton of the parser: every token kind the reader can emit has a handler in the collector '
         'and the expression parser and is routed to its parse_* method; every standard argument letter builds the parser of '
         'its kind and optionality; one slot per declared argument; every closing predicate tests token kind and expected '
         'closer and content parsers require it; promoted delimiters are restored for children; absent optional arguments '
         'restore the reader including whitespace; default-table facts named by the property.'),
   note='Equality of the produced tree with the grammar derivation of the document is not decided.',
   technique='AST exhaustiveness (emitted vs handled token kinds, signature letters vs branches), guard-fact analysis of closing predicates, regex-AST analysis of the begin/end detector, table evaluation'),
 'C10': dict(level='other', design='DESIGN.md section 5, C10',
   text=('Decides where the mode of a node is determined: math parser contents state and recorded fields, walker events, '
         'per-argument/body deltas, default-table modes, delimiter choice in the token reader, plus two discipline rules '
         'over all parse functions (the given parsing_state is never re-bound; state factories return states derived from '
         'their argument, never a remembered one).'),
   note='Run-time inheritance of the mode through user-supplied child-state factories is not decided.',
   technique='AST def-use of parsing-state flow (no re-binding, derived-from-argument), guarded-value enumeration of per-argument/body states (also through helper methods), shape rules on math parser/events, table evaluation'),
 'C05': dict(level='other', design='DESIGN.md sections 3 (E1, E3), 4 and 5 C05',
   text=('Exception-escape analysis (least fixpoint over the resolved call graph, strict configuration) of '
         'LatexWalker.parse_content over every parser class of the package: each escaping (exception class, raise site) '
         'pair must be a LatexWalkerParseError subclass, an abstract stub, or a raise listed in the reviewed table of '
         'configuration/protocol errors; crash-construct rules G1-G9 on all reachable functions (call binding, unbound '
         'names, missing self attributes, None dereference, index before bounds check, max() of nothing, constant index '
         'without length fact, truthiness of positions); every parse error is constructed with a position that cannot be '
         'None and annotated with line/column from it; stray closing tokens and unmet required stop conditions raise.'),
   note=('Implicit exceptions are covered only through the named crash constructs; that every faulty document reaches a '
         'rejecting raise is not decided. Call resolution over-approximates (CHA + name-keyed fallback).'),
   technique='call-graph construction + exception-escape dataflow (fixpoint) + repository-specific crash-construct lints on reachable functions'),
 'C06': dict(level='other', design='DESIGN.md sections 3 (E3), 4 and 5 C06',
   text=('Escape analysis in the tolerant configuration (tolerance check and the parse_content context manager modelled '
         'from their code), recovery hand-over between __exit__ and parse_content, affine proof that every recovery token '
         'ends at the resume position with positive width, the handler that attaches partial nodes is the first one that '
         'can see a parse error, and mode non-interference: tolerant_parsing is read only inside error handling, so an '
         'error-free parse executes the same statements in both modes; plus G1-G9 on reachable functions.'),
   note='Termination is decided only through token-level progress; equality of trees on valid input follows from non-interference only for error-free runs.',
   technique='exception-escape dataflow per configuration, def-use of the recovery hand-over, affine progress obligations, reader-position typestate along retry paths, sibling-exit agreement, handler-order analysis'),
 'C07': dict(level='other', design='DESIGN.md sections 3, 4 and 5 C07',
   text=('Escape analysis of latex_to_text, G1-G9 on every function reachable from it and from each replacement callable '
         'of the default table (module-level lambdas included), a node-kind typestate analysis of attribute reads in '
         'latex2text (kinds inferred from the dispatch, the tables and calls that pass nodes on), option-value/arm and '
         'policy-key agreement, cross-table checks between spec classes, default tables and rendering code, callable '
         'signatures vs what apply_simplify_repl passes, None-guards on the legacy nodeargs view.'),
   note='Bounded running time and third-party simplify_repl callables are not decided.',
   technique='exception-escape dataflow + crash-construct lints (incl. value-set analysis of fixed-table keys) + node-kind typestate inference + evaluated default tables'),
 'C03': dict(level='other', design='DESIGN.md section 5, C03',
   text=('Thin, structural: the whitespace-policy presets are evaluated and compared with the documented semantics; '
         'every policy key read exists in every preset; node_to_text dispatches every concrete node class to its own '
         'renderer; the equation policy is scoped (with-item only, restored on exit); formatting macros are transparent in '
         'both default tables; math content is the stripped body rendered inside the equation context; accents use NFC; '
         'bare-macro post-space and whitespace-only-node rules have the documented polarity; specials table values.'),
   note='No rendered string is computed: whitespace ownership between constructs and the compositional equality of the property are run-time statements and are not decided.',
   technique='evaluation of literal policy tables against a documented oracle + AST guard-fact/shape rules on the rendering functions + table evaluation'),
 'C08': dict(level='other', design='DESIGN.md section 5, C08',
   text=('Table inverse: an abstract decoder over the evaluated default walker and latex2text tables (control words/symbols, '
         'groups, single-token arguments, %s replacements, accents with NFC, math alphabets, specials) is applied to every '
         'entry of the default encoder table; 1236 of 1512 entries decode to their own character, the others are a frozen '
         'reviewed list; any entry leaving the invertible set is reported. Sibling agreement of the two dangling-control-word '
         'tests (and letter-case completeness of a regex used there) and the argument count of accent macros are decided '
         'structurally.'),
   note='Neighbour effects between a replacement and adjacent characters under the protection schemes/whitespace policies are run-time string interactions and are not decided; the decoder is a model of latex2text restricted to table-driven constructs.',
   technique='abstract evaluation of the declarative encode/decode tables (no repository code is run) + sibling-implementation cross-check + checker-side evaluation of the protection predicates on probe literals'),
}

NOT_YET = {}

def main():
    props = [json.loads(l) for l in open(os.path.join(HERE, 'properties.jsonl'))]
    checks, na = [], []
    for p in props:
        pid = p['id']
        c = CHECKS.get(pid)
        if c is None:
            na.append({'property_id': pid, 'reason': NOT_YET.get(pid, 'check not built yet in this round (see DESIGN.md section 5 for the planned rules)')})
            continue
        checks.append({
            'property_id': pid,
            'quick_cmd': '/venv/bin/python -m pxv check %s --tier quick' % pid,
            'thorough_cmd': '/venv/bin/python -m pxv check %s --tier thorough' % pid,
            'evidence_file': '/verif/evidence/%s.json' % pid,
            'replay_cmd_template': '/venv/bin/python -m pxv check %s --tier quick  # replay file {path} names the construct' % pid,
            'engine': 'pxv',
            'level_claimed': {'category': c['level'], 'text': c['text'], 'design_ref': c['design']},
            'level_note': c['note'],
            'technique': c['technique'],
        })
    man = {
        'version': 1,
        'setup_cmd': 'true',
        'hooks': {
            'guard': 'PYLATEXENC_VERIF',
            'enable': 'none needed: the checks parse /repo with ast and never run it; no hook code was added to the repository',
            'baseline_off_cmd': 'cd /repo && /venv/bin/python -m pytest -ra -q -p no:cacheprovider --timeout=900 --continue-on-collection-errors',
            'source_commits': [],
            'add_only': True,
        },
        'engines': [{'name': 'pxv', 'path': '/verif/pxv', 'serves_properties': sorted(CHECKS),
                     'kind_free_text': 'repository-specific static analysis on the Python ast of /repo (source index, guard facts, CFG, affine normaliser, declarative-table evaluator, exception-escape analysis); stdlib only'}],
        'checks': checks,
        'notes': 'Static analysis only; see DESIGN.md. known_findings.json lists genuine defects (fixed: entries name the fix commit in /repo).',
        'not_applicable': na,
    }
    with open(os.path.join(HERE, 'MANIFEST.json'), 'w') as f:
        json.dump(man, f, indent=1)
    print('MANIFEST.json: %d checks, %d not claimed' % (len(checks), len(na)))

if __name__ == '__main__':
    main()
