#!/venv/bin/python
"""Apply a patch to /repo, run every quick check in parallel, undo the patch.
usage: try_patch_all.py <patch.diff> [--expect-silent]
Prints one line per property whose check does not exit 0."""
import subprocess, sys, os, json, concurrent.futures
patch = os.path.abspath(sys.argv[1])
def sh(cmd, **kw):
    return subprocess.run(cmd, shell=True, stdout=subprocess.PIPE, stderr=subprocess.STDOUT, **kw)
if sh('git -C /repo diff --quiet').returncode != 0:
    print('/repo dirty, refusing'); sys.exit(9)
r = sh('git -C /repo apply %s' % patch)
if r.returncode != 0:
    print('PATCH DOES NOT APPLY', r.stdout.decode()[-300:]); sys.exit(8)
try:
    props = ['C%02d' % i for i in range(1, 21)]
    def one(p):
        env = dict(os.environ, PXV_EVIDENCE_DIR='/tmp/pxv_evidence_scratch')
        r = subprocess.run(['/venv/bin/python', '-m', 'pxv', 'check', p], cwd='/verif', env=env,
                           stdout=subprocess.PIPE, stderr=subprocess.STDOUT)
        return p, r.returncode, r.stdout.decode('utf-8', 'replace')
    bad = 0
    with concurrent.futures.ThreadPoolExecutor(10) as ex:
        for p, rc, out in ex.map(one, props):
            if rc != 0 or '\n  UNKNOWN ' in out:
                bad += 1
                lines = [l for l in out.splitlines() if not l.startswith('  rule') and 'VIOLATION property' not in l]
                print('%s rc=%d :: %s' % (p, rc, ' || '.join(l[:300] for l in lines[1:4])))
    print('%s: %d/20 checks not silent' % (os.path.basename(patch), bad))
finally:
    sh('git -C /repo checkout -- .')
sys.exit(0)
