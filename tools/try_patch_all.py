#!/venv/bin/python
"""Apply a patch to a scratch copy of /repo's package (never to /repo itself), run every check on the copy
in parallel, remove the copy.
usage: try_patch_all.py <patch.diff> [<patch.diff> ...]
Prints one line per property whose check is not silent (REFUTED, UNKNOWN, floor failure, analysis error)."""
import os, shutil, subprocess, sys, tempfile, multiprocessing
sys.path.insert(0, '/verif')
from pxv import core, selftest


def one(args):
    patch, prop = args
    root = core.repo_root()
    tmp = tempfile.mkdtemp(prefix='pxv_try_')
    try:
        shutil.copytree(os.path.join(root, 'pylatexenc'), os.path.join(tmp, 'pylatexenc'),
                        ignore=shutil.ignore_patterns('__pycache__'))
        ok, out = selftest._apply_patch(tmp, patch)
        if not ok:
            return prop, 8, 'PATCH DOES NOT APPLY ' + out
        try:
            ctx = selftest.evaluate(prop, tmp)
        except core.AnalysisError as e:
            return prop, 2, 'ANALYSIS-ERROR %s' % e
        except Exception as e:      # a crash of the checker is a result worth seeing, too
            import traceback
            return prop, 2, 'CRASH %s' % traceback.format_exc()[-400:]
        known = {k['key'] for k in core.load_known_findings()
                 if k.get('property') == prop and k.get('status') == 'known'}
        ref = [o for o in ctx.obs if o.verdict == core.REFUTED and o.key() not in known]
        unk = [o for o in ctx.obs if o.verdict == core.UNKNOWN]
        low = ctx.floor_failures() if hasattr(ctx, 'floor_failures') else []
        if ref or unk or low:
            txt = ' || '.join(['%s %s: %s' % (o.rule, 'REFUTED', o.reason[:260]) for o in ref[:2]] +
                              ['%s UNKNOWN: %s' % (o.rule, o.reason[:160]) for o in unk[:2]] +
                              ['floor %s' % (low,)] * bool(low))
            return prop, 1 if ref else 0, txt
        return prop, 0, ''
    finally:
        shutil.rmtree(tmp, ignore_errors=True)


if __name__ == '__main__':
    import importlib
    for i in range(1, 21):
        importlib.import_module('pxv.rules.c%02d' % i)
    patches = [os.path.abspath(a) for a in sys.argv[1:] if not a.startswith('--')]
    props = ['C%02d' % i for i in range(1, 21)]
    tasks = [(p, q) for p in patches for q in props]
    with multiprocessing.Pool(min(16, len(tasks))) as pool:
        res = pool.map(one, tasks, chunksize=1)
    for p in patches:
        bad = 0
        for (pp, q), (prop, rc, txt) in zip(tasks, res):
            if pp == p and (rc != 0 or txt):
                bad += 1
                print('%s rc=%d :: %s' % (prop, rc, txt))
        print('%s: %d/20 checks not silent' % (os.path.basename(p) if len(patches) > 1 or True else p, bad))
