#!/bin/bash
# usage: try_seed.sh <seed id under /verif/seeded> [PROP]   -- applies the patch to /repo, runs the quick check, undoes it
set -u
sid="$1"; d=/verif/seeded/$sid
prop="${2:-$(python3 -c "import json;print(json.load(open('$d/meta.json'))['property'])")}"
cd /repo || exit 9
if ! git diff --quiet; then echo "/repo dirty, refusing"; exit 9; fi
git apply "$d/patch.diff" || { echo "patch does not apply"; exit 9; }
cd /verif && PXV_EVIDENCE_DIR=/tmp/pxv_evidence_scratch /venv/bin/python -m pxv check "$prop" --tier quick | grep -v "^  rule" | cut -c1-400
rc=${PIPESTATUS[0]}
git -C /repo checkout -- . 
echo "seed $sid prop $prop -> rc=$rc"
exit $rc
