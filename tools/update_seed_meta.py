#!/venv/bin/python
"""For every seeded change without a detected_by entry (or all with --all): evaluate the check of
its property on a scratch copy with the patch applied and record the detecting rule in meta.json.
usage: update_seed_meta.py [--all] [--added-after-miss ID,ID,...]"""
import json, os, sys
sys.path.insert(0, '/verif')
from pxv import selftest
sd = '/verif/seeded'
after = set()
if '--added-after-miss' in sys.argv:
    after = set(sys.argv[sys.argv.index('--added-after-miss') + 1].split(','))
for name in sorted(os.listdir(sd)):
    mp = os.path.join(sd, name, 'meta.json')
    if not os.path.exists(mp):
        continue
    meta = json.load(open(mp, encoding='utf-8'))
    if meta.get('detected_by') and '--all' not in sys.argv and name not in after:
        continue
    prop = meta['property']
    v = dict(id=name, prop=prop, patch=os.path.join(sd, name, 'patch.diff'), expect='*')
    vid, status, why = selftest._one_patch(v, selftest.core.repo_root())
    if status == 'detected':
        meta['detected_by'] = prop
        meta['detected_rule'] = why[:300]
        meta.pop('not_detected_reason', None)
        if name in after:
            meta['rule_added_after_first_miss'] = True
    else:
        meta['detected_by'] = None
        if not str(meta.get('not_detected_reason', '')).startswith('not decided by this family'):
            meta['not_detected_reason'] = why
    json.dump(meta, open(mp, 'w', encoding='utf-8'), indent=1, ensure_ascii=False)
    print(name, status, why[:140])
